#!/venv/bin/python
"""Evaluate every finished seed worktree /tmp/seed-<PROP>-<suffix> (SEED_NOTES.md present) that has no meta.json yet."""
import glob, json, os, subprocess, sys
suffixes = sys.argv[1:]
for wt in sorted(glob.glob("/tmp/seed-C*-*")):
    if not os.path.isdir(wt):
        continue
    name = os.path.basename(wt)[5:]
    if name.count("-") != 1:
        continue
    prop, suf = name.split("-")
    if suffixes and suf not in suffixes:
        continue
    if not os.path.exists(wt + "/SEED_NOTES.md") or not os.path.exists(wt + "/demo.py"):
        print(name, "not finished"); continue
    if os.path.exists(f"/verif/seeded/{name}/meta.json") and "--force" not in sys.argv:
        m = json.load(open(f"/verif/seeded/{name}/meta.json")); print(name, "already:", m.get("caught_by")); continue
    p = subprocess.run(["/verif/tools/seed_eval.py", wt, name, prop], capture_output=True, text=True)
    try:
        m = json.load(open(f"/verif/seeded/{name}/meta.json"))
        print(name, "confirmed", m["confirmed"], "caught_by", m["caught_by"], (m["checks"][prop]["violations"] or [""])[0][:160])
    except Exception as e:
        print(name, "EVAL FAILED", p.stderr[-400:])
