#!/bin/sh
# no-false-alarm sweep: every registered check under many VERIF_SEED values (DESIGN 7.3)
# usage: tools/sweep.sh <first_seed> <last_seed> [budget_s] [tier]
cd "$(dirname "$0")/.." || exit 2
first=${1:-1}; last=${2:-20}; budget=${3:-30}; tier=${4:-quick}
bad=0
for seed in $(seq "$first" "$last"); do
  for p in C08 C09 C12 C15 C17 C18; do
    out=$(VERIF_SEED=$seed ./check $p --tier "$tier" --budget "$budget" 2>&1); rc=$?
    echo "seed=$seed prop=$p rc=$rc $(echo "$out" | grep -E '^runs=' | cut -c1-160)"
    if [ $rc -ne 0 ]; then bad=$((bad+1)); echo "$out" | grep -E '^(VIOLATION|HARNESS-ERROR)' | cut -c1-600; fi
  done
done
echo "sweep done: nonzero exits = $bad"
[ $bad -eq 0 ]
