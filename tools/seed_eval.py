#!/venv/bin/python
"""Confirm a sub-agent's seeded change and run our checks against it.
usage: tools/seed_eval.py <worktree> <seed-id> <property> [more properties to run...]
"""
import json, os, subprocess, sys, shutil, time

wt, sid, prop = sys.argv[1], sys.argv[2], sys.argv[3]
props = sys.argv[3:]
env = dict(os.environ, PYTHONPATH=wt + "/src", PYTHONDONTWRITEBYTECODE="1")
def sh(cmd, cwd=wt, env=env, timeout=1800):
    p = subprocess.run(cmd, shell=True, cwd=cwd, env=env, capture_output=True, text=True, timeout=timeout)
    return p.returncode, (p.stdout + p.stderr)
meta = {"id": sid, "breaks_property": prop, "ran": {}}
rc, diff = sh("git diff -- src")
assert diff.strip(), "no change in worktree"
rc, out = sh("/venv/bin/python -m pytest -q -p no:cacheprovider --timeout=900 2>&1 | tail -1")
meta["ran"]["repo tests with the change"] = out.strip()
rc1, out1 = sh("/venv/bin/python demo.py")
meta["ran"]["demo with the change"] = {"exit": rc1, "tail": out1.strip()[-300:]}
open("/tmp/_seed_eval.patch", "w").write(diff)
rcx, outx = sh("git apply -R /tmp/_seed_eval.patch")
assert rcx == 0, outx
rc0, out0 = sh("/venv/bin/python demo.py")
rcx, outx = sh("git apply /tmp/_seed_eval.patch")
assert rcx == 0, outx
meta["ran"]["demo without the change"] = {"exit": rc0, "tail": out0.strip()[-300:]}
ok = ("passed" in out and "failed" not in out) and rc1 != 0 and rc0 == 0
meta["confirmed"] = ok
d = f"/verif/seeded/{sid}"
os.makedirs(d, exist_ok=True)
open(d + "/patch.diff", "w").write(diff)
shutil.copy(wt + "/demo.py", d + "/demo.py")
if os.path.exists(wt + "/SEED_NOTES.md"):
    shutil.copy(wt + "/SEED_NOTES.md", d + "/SEED_NOTES.md")
# run our checks against a scratch copy of /repo/src with the patch applied (VERIF_REPO_SRC), so that background
# runs judging /repo itself are not disturbed; equivalent to `git -C /repo apply` + checks + `git -C /repo checkout -- .`
scratch = f"/dev/shm/seedsrc-{os.getpid()}"
shutil.rmtree(scratch, ignore_errors=True)
os.makedirs(scratch)
shutil.copytree("/repo/src", scratch + "/src", ignore=shutil.ignore_patterns("__pycache__"))
rc, out = sh(f"git apply {d}/patch.diff", cwd=scratch, env=dict(os.environ))
assert rc == 0, out
meta["checks"] = {}
try:
    for p in props:
        e2 = dict(os.environ, VERIF_MAX_MINIMISE="2", VERIF_MINIMISE_S="30", VERIF_REPO_SRC=scratch + "/src")
        t0 = time.time()
        rc, out = sh(f"./check {p} --tier quick", cwd="/verif", env=e2)
        vl = [l[:400] for l in out.splitlines() if l.startswith("VIOLATION")]
        meta["checks"][p] = {"exit": rc, "wall_s": round(time.time() - t0, 1), "violations": vl[:3],
                             "summary": [l[:300] for l in out.splitlines() if l.startswith("runs=")]}
finally:
    shutil.rmtree(scratch, ignore_errors=True)
meta["caught_by"] = [p for p, r in meta["checks"].items() if r["exit"] == 1]
if os.path.exists(d + "/meta.json"):
    try:
        old = json.load(open(d + "/meta.json"))
        for k in ("needs_to_manifest", "detection_history"):
            if k in old:
                meta[k] = old[k]
    except Exception:
        pass
json.dump(meta, open(d + "/meta.json", "w"), indent=1)
print(json.dumps(meta, indent=1))
