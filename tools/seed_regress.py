#!/venv/bin/python
"""Sensitivity regression: run the quick check of every seeded change's property against a scratch copy of /repo/src with
that change applied (never /repo itself), and record which are (still) caught by the checks as they are now.

usage: tools/seed_regress.py [ids...]        result: seeded/REGRESSION.json (+ a line per change on stdout)
"""
import glob
import json
import os
import shutil
import subprocess
import sys
import time

want = set(sys.argv[1:])
out_path = "/verif/seeded/REGRESSION.json"
res = json.load(open(out_path)) if os.path.exists(out_path) and want else {}
for d in sorted(glob.glob("/verif/seeded/C*-*")):
    sid = os.path.basename(d)
    if want and sid not in want:
        continue
    prop = sid.split("-")[0]
    scratch = f"/dev/shm/regress-{sid}"
    shutil.rmtree(scratch, ignore_errors=True)
    os.makedirs(scratch)
    shutil.copytree("/repo/src", scratch + "/src", ignore=shutil.ignore_patterns("__pycache__"))
    try:
        p = subprocess.run(["git", "apply", d + "/patch.diff"], cwd=scratch, capture_output=True, text=True)
        if p.returncode != 0:
            p = subprocess.run(["patch", "-p1", "-F3", "-i", d + "/patch.diff"], cwd=scratch, capture_output=True, text=True)
        if p.returncode != 0:
            res[sid] = {"status": "patch no longer applies to the current tree", "detail": (p.stdout + p.stderr)[-300:]}
            print(sid, res[sid]["status"], flush=True)
            continue
        env = dict(os.environ, VERIF_MAX_MINIMISE="1", VERIF_MINIMISE_S="5", VERIF_REPO_SRC=scratch + "/src")
        t0 = time.time()
        q = subprocess.run(["./check", prop, "--tier", "quick"], cwd="/verif", env=env, capture_output=True, text=True, timeout=1800)
        lines = (q.stdout + q.stderr).splitlines()
        vl = [l[:300] for l in lines if l.startswith("VIOLATION")]
        he = [l[:300] for l in lines if l.startswith("HARNESS-ERROR")]
        res[sid] = {"status": {0: "NOT caught", 1: "caught"}.get(q.returncode, "exit %d" % q.returncode), "exit": q.returncode,
                    "wall_s": round(time.time() - t0, 1), "first_violation": vl[:1], "harness_errors": he[:1],
                    "summary": [l[:200] for l in lines if l.startswith("runs=")][:1]}
        print(sid, res[sid]["status"], (vl or he or [""])[0][:140], flush=True)
    finally:
        shutil.rmtree(scratch, ignore_errors=True)
    json.dump(res, open(out_path, "w"), indent=1, sort_keys=True)
json.dump(res, open(out_path, "w"), indent=1, sort_keys=True)
n = len(res)
c = sum(1 for r in res.values() if r["status"] == "caught")
print(f"{c} of {n} caught")
