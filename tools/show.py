import json, sys
sys.path.insert(0, '/verif')
from verif_sim import gen
for f in sys.argv[1:]:
    d = json.load(open(f))
    t = d['trace']
    print('=====', f)
    print('VIOLATION', json.dumps(d['violation'], default=str)[:1200])
    if 'ast' in t:
        print('settings', t['settings'], 'env', t['env'])
        print(gen.render(t['ast']))
    else:
        print(json.dumps({k: v for k, v in t.items() if k not in ('tree', 'crash_frac')})[:700])
        for k, v in t['tree'].items():
            print('  ', k, v.get('fault'), repr(v.get('text'))[:700])
