#!/venv/bin/python
"""Write the prompts for a round of seeded changes and create the scratch worktrees.

usage: tools/seed_prompts.py <suffix>=<framing-key> [...]      e.g.  tools/seed_prompts.py u=errors v=text w=hardening

For every claimed property P and every suffix s: a git worktree of /repo at /tmp/seed-P-s and a prompt
/tmp/prompt-P-s.txt holding ONLY the property text, the working instructions and the list of ideas already taken
(the `needs_to_manifest` lines of seeded/*/meta.json of that property) - nothing else from /verif.
"""
import glob
import json
import os
import subprocess
import sys

PROPS = ("C08", "C09", "C12", "C15", "C17", "C18")
FRAMINGS = {
    "errors": "an ERROR-HANDLING or CLEANUP PATH. The edit touches what happens when something goes wrong or is unusual (an exception "
              "handler, a finally block, a context manager, an early return, a default for a missing value, a retry, a fallback) and is "
              "correct on the happy path; the property breaks only when that path is taken and something else is also true (what was "
              "already done before the failure, what comes after it, which file or entry it happens on).",
    "text": "a TEXT-PROCESSING slip. The edit changes how some piece of text is matched, split, normalised, compared or re-assembled "
            "(a regular expression, str.split/strip/replace/partition, case folding, whitespace or newline handling, Unicode "
            "normalisation, number formatting, escaping/unescaping) and is right for ordinary text but wrong for a legal but unusual one.",
    "hardening": "a HARDENING or COMPATIBILITY change. The edit claims to make the code safer or more portable (escaping values put into "
                 "HTML or console markup, sanitising or normalising paths, validating arguments earlier, supporting an older/newer "
                 "version of a dependency or of Python, replacing a deprecated call) and subtly changes behaviour for inputs that "
                 "were handled correctly before.",
    "state": "STATE PLACEMENT. The edit moves a value to a different lifetime or owner (local -> attribute, attribute -> class attribute, "
             "per-call -> module level, module level -> default argument, per-file -> per-run, copied -> shared reference) for a plausible reason.",
    "contract": "an INTERNAL CONTRACT drift. The edit changes what an internal helper returns or accepts in a corner (None vs empty, "
                "tuple vs list, rounded vs exact, clamped vs raised, str vs object, 0 vs False, a new optional parameter with a default) "
                "and updates most but not all of its callers, or a caller starts to rely on something the helper never promised.",
    "deps": "an ASSUMPTION ABOUT A DEPENDENCY. The edit leans on how tinycss2 (node types, what parse/serialize round-trips and what it does "
            "not, ParseError nodes, whitespace and comment tokens, at-rule content being None), click (option parsing, echo, exceptions, "
            "standalone mode), rich (markup, Console, width, highlighting) or the standard library (pathlib, glob, os.replace, open() modes, "
            "str methods, float formatting, round()) behaves; the assumption is true for ordinary input and false in a documented corner.",
    "lifecycle": "a RESOURCE / OBJECT LIFECYCLE change. The edit changes when something is created, consumed, closed, reset or reused (a file "
                 "handle, an iterator or generator, a context manager, a parsed tree, a list built once, an object kept for the next "
                 "iteration, something initialised lazily) for a plausible reason.",
    "diagnostics": "an added DIAGNOSTIC or CONVENIENCE. The edit adds a message, a progress indication, a summary line, a statistic, a "
                   "timestamp or version stamp, a backup copy, a log file, a cache file, a default for a missing option, or an "
                   "environment variable that switches something on - and that addition leaks into what the property constrains in a corner.",
    "numeric": "an OPTIMISATION OF THE NUMERIC SEARCH or of colour arithmetic. The edit makes the optimiser or a conversion cheaper or 'more "
               "stable' (an early exit, fewer iterations, a coarser step, a cached intermediate value, a float comparison with a tolerance, "
               "integer arithmetic instead of float, rounding moved earlier or later, a lookup table) and is indistinguishable on "
               "ordinary colours.",
    "ergonomics": "an API / CLI ERGONOMICS change. The edit makes the interface friendlier (accepts another input type or spelling, "
                  "normalises or strips arguments, adds a keyword alias or a new default, returns a richer object that still compares "
                  "equal in the common case, adds a CLI option or lets an option be repeated) and changes behaviour in a corner of the "
                  "existing interface.",
    "portability": "a PORTABILITY change. The edit is made for another platform or file system (Windows path separators and drive letters, "
                   "newline translation, case-insensitive or Unicode-normalising file names, long paths, read-only files and permission bits, "
                   "symlinks and junctions, locale-dependent number or text handling) and subtly changes behaviour on this one.",
    "simplify": "a SIMPLIFICATION that removes something 'redundant'. The edit deletes or merges code that looks unnecessary (a second "
                "check, a defensive copy, a reset, a strip(), a re-parse, a clamp, an else branch, a special case, an isinstance test, a "
                "temporary variable) and is in fact needed in one corner.",
    "specialcase": "a BUG-REPORT FIX that over-reaches. The edit special-cases or 'fixes' one reported input or situation (a particular colour "
                   "format, selector shape, file name, at-rule, option combination) with a condition that is slightly too broad or too "
                   "narrow, so that neighbouring inputs that used to work now behave differently.",
    "modernise": "a MODERNISATION of types or structure. The edit converts something to a more modern construct (a dataclass / NamedTuple / "
                 "__slots__ / Enum / f-string / pathlib / walrus / match statement / comprehension / functools helper / typing-driven "
                 "signature change) and silently changes equality, hashing, truthiness, ordering, laziness, default handling or text formatting.",
    "twosite": "TWO COOPERATING SITES. The change consists of two small edits in two different functions or files, each of which is "
               "harmless on its own (you can argue for either in isolation: one relaxes or moves a guarantee that the other silently "
               "relied on); only together, and only for a particular input, order of calls or fault, does the property break.",
    "ordering": "an ORDERING change. The edit re-orders two steps, or the traversal / iteration / sort order of something, for a plausible reason; "
                "each order is fine for most inputs.",
}


def prop_text(pid):
    for line in open("/verif/properties.jsonl"):
        d = json.loads(line)
        if d["id"] == pid:
            return d
    raise SystemExit("no property " + pid)


def taken(pid):
    out = []
    for mf in sorted(glob.glob(f"/verif/seeded/{pid}-*/meta.json")):
        m = json.load(open(mf))
        n = m.get("needs_to_manifest")
        if n:
            out.append(n)
    return out


TEMPLATE = open(os.path.join(os.path.dirname(os.path.abspath(__file__)), "seed_prompt_template.txt")).read()


def main():
    pairs = [a.split("=", 1) for a in sys.argv[1:]]
    for pid in PROPS:
        d = prop_text(pid)
        for suf, fk in pairs:
            wt = f"/tmp/seed-{pid}-{suf}"
            if not os.path.isdir(wt):
                subprocess.run(["git", "-C", "/repo", "worktree", "add", "--detach", wt, "HEAD"], check=True, capture_output=True)
            ideas = "\n".join("  (%d) %s" % (i + 1, t[:150]) for i, t in enumerate(taken(pid)))
            q = d.get("quantifier") or ""
            txt = TEMPLATE.format(WT=wt, PID=pid, TITLE=d.get("title", ""), STATEMENT=d.get("statement", ""), QUANT=q, IDEAS=ideas, FRAMING=FRAMINGS[fk])
            open(f"/tmp/prompt-{pid}-{suf}.txt", "w").write(txt)
            print("wrote", f"/tmp/prompt-{pid}-{suf}.txt", len(txt))


if __name__ == "__main__":
    main()
