"""C09 - CLI: inputs never touched; the rest of the stylesheet preserved.

Per run: one generated tree (1-4 stylesheets with everything the tool must carry through,
bystander files), one fault-free invocation (effects + structure + validity + exists), then the
same invocation repeated on a fresh copy of the tree under (a) each I/O-error plan of the trace
and (b) EVERY crash point of that tree (crash before each I/O call, and in the middle of each
write); under faults only the effects clause is asserted (DESIGN 4, C09).
"""
import copy
import os

from . import base, cli_run, gen, refs, report, seams
from .base import stream
from .p_c18 import shrink_sheet, _NONUTF8, _UNSER

ID = "C09"
LEVEL = "fault_enumeration"
BUDGET = {"quick": 45.0, "thorough": 900.0}
CHUNK = 2
RUN_TIMEOUT = 300.0
SELFTEST_RUNS = 2
RULE = ("one run = one generated tree (1-4 stylesheets using @import/@charset/@font-face/@keyframes/@page/unknown at-rules, odd strings and "
        "url() tokens, escapes, !important, vendor hacks, empty rules, non-ASCII, CRLF, BOM, CDO/CDC + bystander files) and one invocation "
        "(file or directory form, seeded settings/cwd); executed fault-free (effects, structure, validity, exists) and then re-executed on "
        "a fresh copy under every I/O-error plan and at EVERY crash point (before each I/O call and mid-write of each output). A run is "
        "non-trivial when >= 1 rule was adjusted or failed or >= 1 fault/crash fired; distinct = distinct event-log digest.")
ASSUMPTIONS = [
    "tinycss2 is trusted as the tokenizer for the structural comparison (it is a dependency, not the code under test)",
    "a crash is an exception at an I/O seam followed by inspection of the sandbox, not power loss (no durability claim is made by cm-colors)",
    "under injected faults only the effects clause (inputs untouched, nothing else created) is asserted",
    "audit hook events (open with write intent, mkdir/rename/remove/...) are complete for pure-Python file effects",
]
PROBES = ["fault_free_runs", "files_structurally_compared", "adjusted_rules_masked", "props_masked", "crash_points_enumerated",
          "crash_mid_write", "fault:eacces-out", "fault:enospc-out", "fault:eacces-report", "fault:enospc-report",
          "fault:eacces-in", "fault:eio-in", "fault:eio-close-out", "dir_invocation", "file_invocation", "cwd_is_tree", "bystanders_checked",
          "feat:opaque-atrules", "feat:odd-strings", "feat:vendor-hacks", "feat:star-hack", "feat:crlf", "feat:bom", "feat:cdo-cdc",
          "feat:non-ascii", "feat:nesting", "feat:vars", "feat:unicode-seps", "feat:dup-root", "feat:nested-root", "feat:dup-selectors", "feat:comment-in-value", "feat:stale-charset", "feat:css-nesting", "feat:own-colour-elsewhere", "noarg_invocation", "glue_comment_needed", "report_written", "stale_output_overwritten",
          "cm_named_stylesheet_as_file_argument", "cm_named_stylesheet_as_bystander", "symlinked_stylesheet_input", "real_interpreter_non_utf8_locale_runs", "tmpdir_on_other_filesystem_runs", "invoked_from_non_main_thread", "second_invocation_in_process:delete-out", "second_invocation_in_process:foreign-out", "second_invocation_in_process:keep", "runs_with_a_dozen_untunable_rules", "reported_selector_on_several_rules"]

C09_FEATURES = gen.ALL_FEATURES
_NAMES = ("a.css", "b.css", "main.css", "thème.css", "my style.css", "reset.min.css", "the\u0300me.css")  # (composed and decomposed è)
_DIRS = ("", "", "", "sub/", "sub/deep/", "sub/deep/", "lib [v2]/", "the[me]1/", "a*b/", "q?x/")


def _settings(rng):
    s = {"mode": rng.choice((1, 1, 1, 0, 0, 2, None))}
    if rng.random() < 0.3:
        s["premium"] = True
    if rng.random() < 0.35:
        s["default_bg"] = rng.choice(("black", "#222", "rgb(250, 250, 240)", "#FFFFFF", "navy", "var(--page-bg)", "var(--page-bg, #fafafa)"))
    return s


def generate(rseed, tier, idx):
    g = stream(rseed, "gen")
    e = stream(rseed, "env")
    fr = stream(rseed, "faults")
    o = stream(rseed, "order")
    settings = _settings(g)
    env = {"cwd": e.choice(("cwd", "cwd", "tree", "tree/sub", "work [v2]", "a b/c", "\u00fcn\u00ef")), "tty": e.random() < 0.3, "argform": e.choice(("abs", "abs", "rel", "noarg")),
           "tmp_other_fs": e.random() < 0.12, "in_thread": e.random() < 0.12,
           # the judged invocation is the second one of a long-lived process (watch loop, task runner); between the two
           # the results of the first were removed / overwritten by something else / left alone
           "rerun": e.choice((None,) * 8 + ("delete-out", "foreign-out", "keep"))}
    feats_pool = [f for f in C09_FEATURES if f != "many-rules" and g.random() < (0.2 if f == "star-hack" else 0.7)]
    nfiles = g.choice((1, 1, 2, 2, 3, 4))
    tree = {}
    for k in range(nfiles):
        for _ in range(20):
            rel = g.choice(_DIRS) + g.choice(_NAMES)
            if rel not in tree:
                break
        feats = gen.draw_features(g, feats_pool, 0.4)
        ast = gen.gen_sheet(g, feats, settings, max_rules=4)
        tree[rel] = {"k": "css", "ast": ast, "text": gen.render(ast), "feats": feats}
    if g.random() < 0.06:
        # VOLUME on the failure side: a dozen or more rules that cannot be tuned (undefined custom properties without a
        # fallback), so that the "needs attention" list is long
        rel = g.choice(sorted(tree))
        for k in range(g.randint(11, 16)):
            tree[rel]["ast"]["items"].append({"t": "rule", "sel": ".unfixable%d" % k, "decls": [
                {"p": "color", "v": "var(--nowhere-%d)" % k, "imp": ""}, {"rawdecl": "margin: 0"}]})
        tree[rel]["text"] = gen.render(tree[rel]["ast"])
        tree[rel]["many_failures"] = True
    inputs = sorted(tree)
    # bystanders nothing may touch
    by = {"notes.txt": "keep me\n", "x.css.bak": ".b{color:#777}\n", "other_cm.css": ".stale{color:#777}\n", "sub/data.json": "{}",
          "UPPER.CSS": ".u{color:#777}"}
    for name, txt in by.items():
        if g.random() < 0.5:
            tree[name] = {"k": "text", "text": txt, "bystander": True}
    outside = {}
    if g.random() < 0.3:
        tops = [r for r in inputs if "/" not in r]
        m = g.random()
        if m < 0.5 and tops:
            tree["link.css"] = {"k": "link", "to": g.choice(tops), "linkobj": True}
        elif m < 0.85:
            # a link to a stylesheet that lives OUTSIDE the processed tree (shared design tokens, say)
            feats = gen.draw_features(g, feats_pool, 0.3)
            ast = gen.gen_sheet(g, feats, settings, max_rules=3, tag="X")
            outside["shared/base.css"] = {"k": "css", "ast": ast, "text": gen.render(ast)}
            if g.random() < 0.5:
                outside["shared/base_cm.css"] = {"k": "text", "text": ".keep{color:#000}"}
            tree["ext.css"] = {"k": "link", "to": "../shared/base.css", "linkobj": True}
        else:
            tree["link.css"] = {"k": "link", "to": "sub/nothing.css", "linkobj": True}
    if g.random() < 0.25:
        tree[g.choice(inputs)[:-4] + "_cm.css"] = {"k": "text", "text": g.choice((".old{color:#000", ".leftover{color:#111111;margin:0}\n" * 60)), "stale": True}
    pre_report = g.random() < 0.25
    cm_named = None
    if g.random() < 0.3:
        # a real stylesheet whose name ends in _cm.css (e.g. the result of an earlier pass): a bystander in directory
        # runs, a legitimate input when named explicitly
        cm_named = g.choice(_DIRS) + g.choice(("theme_cm.css", "a_cm.css", "x_cm.css"))
        if cm_named not in tree:
            feats = gen.draw_features(g, feats_pool, 0.3)
            ast = gen.gen_sheet(g, feats, settings, max_rules=3, tag="K")
            tree[cm_named] = {"k": "css", "ast": ast, "text": gen.render(ast), "feats": feats, "cmname": True}
        else:
            cm_named = None
    if cm_named and g.random() < 0.5:
        inv = {"form": "file", "target": cm_named}
    elif g.random() < 0.6 or nfiles > 1:
        inv = {"form": "dir", "target": "."}
        tops = sorted({r.split("/", 1)[0] for r in inputs if "/" in r})
        if tops and g.random() < 0.35:
            inv["target"] = g.choice(tops)  # a sub-directory (whose name may contain spaces, brackets, * or ?) is the argument
    else:
        inv = {"form": "file", "target": g.choice(inputs)}
    if inv["form"] == "dir" and g.random() < 0.3:
        k = fr.choice(("non-utf8", "unserialisable", "dir-named-css", "dangling-link", "empty"))
        rel = g.choice(_DIRS) + "bad.css"
        tree[rel] = ({"k": "bytes", "hex": fr.choice(_NONUTF8)} if k == "non-utf8" else
                     {"k": "css", "text": fr.choice(_UNSER)} if k == "unserialisable" else
                     {"k": "dir"} if k == "dir-named-css" else
                     {"k": "link", "to": "nowhere.css"} if k == "dangling-link" else {"k": "css", "text": ""})
        tree[rel]["fault"] = k
    # I/O error plans (each executed on a fresh copy)
    plans = []
    outs = ["tree/" + r[:-4] + "_cm.css" for r in inputs]
    for _ in range(fr.choice((1, 2, 3))):
        kind = fr.choice(("eacces-out", "enospc-out", "eacces-report", "enospc-report", "eacces-in", "eio-in", "eio-close-out"))
        if kind.endswith("-out"):
            p = fr.choice(outs)
            what = "eacces" if kind.startswith("eacces") else ("eio-close" if kind.startswith("eio-close") else "enospc@%d" % fr.choice((0, 1, 7, 40, 200)))
            plans.append({"kind": kind, "faults": [{"path": p, "mode": "w", "n": 1, "what": what}]})
        elif kind.endswith("-report"):
            p = os.path.normpath(os.path.join(env["cwd"], "cm_colors_report.html"))
            what = "eacces" if kind.startswith("eacces") else "enospc@%d" % fr.choice((0, 10, 500, 3000))
            plans.append({"kind": kind, "faults": [{"path": p, "mode": "w", "n": 1, "what": what}]})
        else:
            p = "tree/" + fr.choice(inputs)
            plans.append({"kind": kind, "faults": [{"path": p, "mode": "r", "n": 1, "what": "eacces" if kind == "eacces-in" else "eio"}]})
    real = None
    if idx % 10 == 6 and all(ord(ch) < 128 for rel in list(tree) + [env["cwd"]] for ch in rel):
        real = "C"  # executed by a real interpreter under a non-UTF-8 locale (file names are ASCII; contents need not be)
    return {"prop": ID, "tree": tree, "outside": outside, "env": env, "settings": settings, "inv": inv, "pre_report": pre_report, "real": real,
            "order_key": o.randrange(1 << 30), "plans": plans, "crash_frac": [fr.random() for _ in range(3)], "enumerate_crashes": True}


# ---------------------------------------------------------------------------


def _model_inputs(snap_tree, inv):
    if inv["form"] == "file":
        return [inv["target"]] if inv["target"].endswith(".css") else []
    pre = "" if inv["target"] in (".", "") else inv["target"].rstrip("/") + "/"
    return sorted(r for r in snap_tree if r.startswith(pre) and r.rsplit("/", 1)[-1].endswith(".css")
                  and not r.rsplit("/", 1)[-1].endswith("_cm.css"))


def _setup(trace, tag):
    root = base.new_sandbox(tag)
    tdir = os.path.join(root, "tree")
    os.makedirs(tdir)
    for rel in sorted(trace["tree"]):
        seams.put_entry(tdir, rel, trace["tree"][rel])
    for rel in sorted(trace.get("outside") or {}):
        seams.put_entry(root, rel, trace["outside"][rel])
    for d in ("home", "tmp", trace["env"]["cwd"]):
        os.makedirs(os.path.join(root, d), exist_ok=True)
    if trace.get("pre_report"):
        with open(os.path.join(root, trace["env"]["cwd"], "cm_colors_report.html"), "w") as f:
            f.write("<html>old report</html>")
    # decoys in home/tmp: a stray write there is seen
    with open(os.path.join(root, "home", ".keep"), "w") as f:
        f.write("x")
    return root


def _rerun_invocation(root, target, settings, kw, how, outs):
    def rd(rel):
        pth = os.path.join(root, rel)
        if os.path.isfile(pth) and not os.path.islink(pth):
            with open(pth, "rb") as f:
                return f.read()
        return None

    had = {rel: rd(rel) for rel in outs}
    first = cli_run.cli_exec(root, target, settings, **kw)
    for rel in outs:
        pth = os.path.join(root, rel)
        now = rd(rel)
        # only what the FIRST invocation wrote is removed / overwritten (a stale file it left alone stays as it was)
        if now is not None and now != had[rel]:
            if how == "delete-out":
                os.unlink(pth)
            elif how == "foreign-out":
                with open(pth, "w") as f:
                    f.write("/* scratch */\n")
    res = cli_run.cli_exec(root, target, settings, **kw)
    res["first_exit"] = first["exit"]
    return res


def _invoke(root, trace, faults=(), crash_io=None, outs=()):
    inv, env = trace["inv"], trace["env"]
    target = "tree" if inv["target"] in (".", "") else "tree/" + inv["target"]
    if trace.get("real") and not faults and crash_io is None:
        return cli_run.cli_exec_real(root, target, trace["settings"], cwd_rel=env["cwd"], argform=env["argform"], locale_mode=trace["real"])
    tmpd = None
    if env.get("tmp_other_fs"):
        cand = os.path.join("/tmp" if root.startswith("/dev/shm") else "/dev/shm", "cmverif-tmp-%d-%s" % (os.getpid(), os.path.basename(root)))
        try:
            os.makedirs(cand, exist_ok=True)
            if os.stat(cand).st_dev != os.stat(root).st_dev:
                tmpd = cand
        except OSError:
            tmpd = None
    try:
        kw = dict(cwd_rel=env["cwd"], order_key=trace.get("order_key"), faults=list(faults), crash_io=crash_io, tty=env["tty"],
                  argform=env["argform"], tmpdir_abs=tmpd, in_thread=bool(env.get("in_thread")))
        if env.get("rerun") and not faults and crash_io is None:
            res = base.in_fork(_rerun_invocation, root, target, trace["settings"], kw, env["rerun"], sorted(outs), timeout=400)
        else:
            res = base.in_fork(cli_run.cli_exec, root, target, trace["settings"], timeout=240, **kw)
        if tmpd:
            left = sorted(os.listdir(tmpd))
            res["tmp_left"] = left
        return res
    finally:
        if tmpd:
            base.rm_tree(tmpd)


def _effects(trace, before, after, res, allowed, V, phase):
    """The effects clause: holds fault-free and under every fault / crash."""
    created, removed, changed = seams.snap_diff(before, after)
    for p in removed:
        V("input-modified" if p in allowed["inputs"] else "bystander-modified", phase, path=p, what="removed")
    for p in changed:
        if p in allowed["out"]:
            continue
        V("input-modified" if p in allowed["inputs"] else "bystander-modified", phase, path=p, what="changed")
    for p in created:
        if p not in allowed["out"]:
            V("unexpected-path", phase, path=p)
    for ev in res["audit"]:
        if ev[0] == "open":
            if ev[2] != "w":
                continue
            path = ev[1]
            if not path.startswith("<SBX>/"):
                V("write-outside-sandbox", phase, path=path)
            else:
                rel = path[6:]
                if rel in allowed["inputs"]:
                    V("input-opened-writable", phase, path=rel)
                elif rel not in allowed["out"] and rel in before:
                    V("bystander-modified", phase, path=rel, what="opened for writing")
                # a NEW path opened for writing (a temporary file, say) is judged by the before/after snapshot:
                # if it is still there at the end it is an unexpected-path, if it was renamed into an output or
                # removed again nothing else was created
        else:
            # rename / remove / rmdir / chmod / ...: a violation when it touches something that existed before the
            # run and is not one of the allowed outputs, or anything outside the sandbox. (Creating a temporary file
            # and renaming it over the output, or removing one's own temporary file, leaves nothing else behind and
            # is judged by the before/after snapshot like everything else.)
            for a in ev[1]:
                if not isinstance(a, str) or a.startswith("<fd") or not (a.startswith("<SBX>") or a.startswith("/")):
                    continue
                if not a.startswith("<SBX>"):
                    V("write-outside-sandbox", phase, event=ev[0], path=a)
                    continue
                rel = a[6:] if a.startswith("<SBX>/") else ""
                if rel in before and rel not in allowed["out"] and before[rel][0] != "d":
                    V("destructive-op", phase, event=ev[0], path=rel)
    for ev in res["io"]:
        if ev[0] == "open" and ev[1] in allowed["inputs"] and any(c in ev[2] for c in "wax+"):
            V("input-opened-writable", phase, path=ev[1], mode=ev[2])


def execute(trace):
    events = []
    vio = []
    stats = {}
    steps = 0

    def bump(k, n=1):
        stats[k] = stats.get(k, 0) + n

    seen_v = set()

    def V(kind, phase, **detail):
        f = {"kind": kind, "phase": "free" if phase == "free" else ("crash" if phase.startswith("crash") else "fault")}
        f.update(detail.pop("_features", {}))
        key = (kind, phase, repr(detail.get("path")), detail.get("file"))
        if key in seen_v:
            return
        seen_v.add(key)
        vio.append({"kind": kind, "detail": dict(detail, phase=phase), "features": f})

    env = trace["env"]
    cwd_rel = env["cwd"]
    # ---------------- fault-free run
    root = _setup(trace, "c09")
    try:
        before = seams.snapshot(root)
        tree_before = {k[5:]: v for k, v in before.items() if k.startswith("tree/")}
        inputs = _model_inputs(tree_before, trace["inv"])
        allowed = {
            "inputs": {"tree/" + r for r in inputs},
            "out": {"tree/" + r[:-4] + "_cm.css" for r in inputs} | {os.path.normpath(os.path.join(cwd_rel, "cm_colors_report.html"))},
        }
        allowed["inputs"] -= allowed["out"]
        res = _invoke(root, trace, outs=[p for p in allowed["out"] if p.endswith("_cm.css")])
        after = seams.snapshot(root)
        steps += len(res["io"])
        if env.get("in_thread") and not trace.get("real"):
            bump("invoked_from_non_main_thread")
        if env.get("rerun") and not trace.get("real"):
            bump("second_invocation_in_process:" + env["rerun"])
        n_open = res["n_open"]
        events.append(("free", res["exit"], res["out"], res["err"], res["io"], sorted((k, base.digest(v)) for k, v in after.items())))
        bump("fault_free_runs")
        if any(v.get("many_failures") for v in trace["tree"].values()):
            bump("runs_with_a_dozen_untunable_rules")
        bump("dir_invocation" if trace["inv"]["form"] == "dir" else "file_invocation")
        if cwd_rel != "cwd":
            bump("cwd_is_tree")
        if res["args"] and not res["args"][0].startswith(("<SBX>", ".", "tree", "/")) or not res["args"]:
            bump("noarg_invocation")
        if any(v.get("cmname") for v in trace["tree"].values()):
            bump("cm_named_stylesheet_as_file_argument" if trace["inv"]["target"].endswith("_cm.css") else "cm_named_stylesheet_as_bystander")
        bump("bystanders_checked", len([k for k in before if k not in allowed["out"] and k not in allowed["inputs"]]))
        if res["exit"] != 0:
            V("cli-raised", "free", exit=res["exit"], exc=res.get("exc"))
        if env.get("tmp_other_fs"):
            bump("tmpdir_on_other_filesystem_runs")
            if res.get("tmp_left"):
                V("unexpected-path", "free", path="<TMPDIR>/" + res["tmp_left"][0], note="left behind in the temp directory")
        _effects(trace, before, after, res, allowed, V, "free")
        rep_path = os.path.normpath(os.path.join(cwd_rel, "cm_colors_report.html"))
        cards = []
        summary = cli_run.parse_stdout(res["out"])
        if summary["T"] > 0 and rep_path in after and after[rep_path][0] == "f":
            bump("report_written")
            try:
                cards = report.parse_cli_report(after[rep_path][1].decode("utf-8"))
            except Exception:
                cards = []
        nontrivial = summary["T"] > 0 or summary["F"] > 0
        err_paths = set(res["err_paths"])
        # ---- structure / validity / exists per healthy input
        for rel in inputs:
            ent = tree_before.get(rel)
            if ent is not None and ent[0] == "l":
                # a symbolic link to a stylesheet is a stylesheet: its result belongs next to the link
                tgt = os.path.normpath(os.path.join("tree", os.path.dirname(rel), ent[1]))
                ent = before.get(tgt)
                if ent is not None and ent[0] == "f":
                    bump("symlinked_stylesheet_input")
            if ent is None or ent[0] != "f":
                continue
            try:
                text = ent[1].decode("utf-8")
            except UnicodeDecodeError:
                continue
            te = trace["tree"].get(rel, {})
            feats = te.get("feats", [])
            for ft in feats:
                if "feat:" + ft in PROBES:
                    bump("feat:" + ft)
            out_ent = after.get("tree/" + rel[:-4] + "_cm.css")
            in_has_err = refs.has_parse_error(text.lstrip("\ufeff")) or _top_level_parse_error(text)
            base_name = rel.rsplit("/", 1)[-1]
            has_bom = text.startswith("\ufeff")
            infos, props = refs.analyse(text.lstrip("\ufeff"), trace["settings"].get("default_bg") or "white")
            card_sels = [c["selector"] for c in cards if c["file"] == base_name and c["selector"] is not None]
            # a file starting with a BOM (which the tool does not strip) has its first rule reported under a
            # selector prefixed by the BOM and whatever precedes the rule; a CSS consumer strips the BOM
            adj = {ri.selector for ri in infos
                   if any(cs == ri.selector or (has_bom and cs.startswith("\ufeff") and cs.endswith(ri.selector)) for cs in card_sels)}
            fv = {"input_decl_parse_error": _has_decl_parse_error(text), "input_parse_error": in_has_err,
                  "adjusted_in_file": len(adj) > 0, "f7_predicted": _f7_predicted(text.lstrip("\ufeff"), infos, props, adj)}
            errored = ("<SBX>/tree/" + rel) in err_paths
            if errored or out_ent is None or out_ent[0] != "f":
                # a stylesheet with a top-level parse error is not "syntactically valid": nothing is demanded
                if not _top_level_parse_error(text):
                    V("no-output", "free", file=rel, error_reported=errored, stderr_tail=res["err"][-300:], _features=fv)
                continue
            if tree_before.get(rel[:-4] + "_cm.css") is not None:
                bump("stale_output_overwritten")
            try:
                out_text = out_ent[1].decode("utf-8")
            except UnicodeDecodeError:
                V("output-invalid-css", "free", file=rel, note="output is not UTF-8", _features=fv)
                continue
            mask_props = set()
            for ri in infos:
                if ri.selector in adj:
                    mask_props |= set(ri.var_refs)
            # transitive closure over custom property definitions
            defs = refs.custom_property_defs(__import__("tinycss2").parse_stylesheet(text.lstrip("\ufeff"), skip_whitespace=True, skip_comments=True))
            changed = True
            while changed:
                changed = False
                for n in list(mask_props):
                    for (_s, val, _i) in defs.get(n, ()):
                        rr = []
                        refs.resolve(val, {}, (), rr)
                        for x in rr:
                            if x not in mask_props:
                                mask_props.add(x)
                                changed = True
            mask = {"rules": adj, "props": mask_props}
            bump("files_structurally_compared")
            bump("adjusted_rules_masked", len(adj))
            bump("props_masked", len(mask_props))
            nf_in = refs.normal_form(text.lstrip("\ufeff"), mask)
            nf_out = refs.normal_form(out_text.lstrip("\ufeff"), mask)
            d = refs.nf_diff(nf_in, nf_out)
            if d is not None:
                # serializer glue: an empty comment present only in the output counts as whitespace
                nf_out2 = _drop_empty_comments(nf_out)
                if refs.nf_diff(_drop_empty_comments(nf_in), nf_out2) is None:
                    bump("glue_comment_needed")
                else:
                    V("structure-differs", "free", file=rel, path=list(d[0]), input=repr(d[1])[:300], output=repr(d[2])[:300], _features=fv)
            elif adj:
                # the mask is by selector text: when SEVERAL rules of the file carry a reported selector (a base rule and its
                # @media override, say), no more of them may have a changed text colour than there are report entries for it
                try:
                    oinfos, _op = refs.analyse(out_text.lstrip("\ufeff"), trace["settings"].get("default_bg") or "white")
                except Exception:
                    oinfos = None
                if oinfos is not None and len(oinfos) == len(infos) and not mask_props:
                    for sel_text in sorted(adj):
                        n_cards = sum(1 for cs in card_sels if cs == sel_text or (has_bom and cs.startswith("\ufeff") and cs.endswith(sel_text)))
                        pairs_ = [(a_, b_) for a_, b_ in zip(infos, oinfos) if a_.selector == sel_text and b_.selector == sel_text]
                        if len(pairs_) > 1:
                            bump("reported_selector_on_several_rules")
                            n_changed = sum(1 for a_, b_ in pairs_ if a_.color_value != b_.color_value)
                            if n_changed > n_cards:
                                V("structure-differs", "free", file=rel, selector=sel_text, rules_changed=n_changed, report_entries=n_cards,
                                  note="more rules with this selector had their text colour changed than were reported as adjusted", _features=fv)
            if not in_has_err and (refs.has_parse_error(out_text.lstrip("\ufeff")) or _top_level_parse_error(out_text)):
                V("output-invalid-css", "free", file=rel, _features=fv)
    finally:
        base.rm_tree(root)

    # ---------------- I/O-error plans and crash points: effects clause only
    def faulted(tag, faults=(), crash_io=None):
        nonlocal steps
        r2 = _setup(trace, "c09f")
        try:
            b2 = seams.snapshot(r2)
            res2 = _invoke(r2, trace, faults=faults, crash_io=crash_io)
            a2 = seams.snapshot(r2)
            steps += len(res2["io"])
            events.append((tag, res2["exit"], res2["io"], sorted((k, base.digest(v)) for k, v in a2.items())))
            _effects(trace, b2, a2, res2, allowed, V, tag)
            # nothing but the effects clause is asserted under faults: an escaped exception when the
            # report or an output cannot be written is not something C09 speaks about
            return res2
        finally:
            base.rm_tree(r2)

    for pi, plan in enumerate(trace.get("plans", ()) if not trace.get("real") else ()):
        r2 = faulted("plan%d:%s" % (pi, plan["kind"]), faults=plan["faults"])
        if r2["fired"]:
            bump("fault:" + plan["kind"])
            nontrivial = True
    if trace.get("real"):
        bump("real_interpreter_non_utf8_locale_runs")
    if trace.get("enumerate_crashes") and not trace.get("real"):
        for c in range(1, n_open + 1):
            r2 = faulted("crash-before-io-%d" % c, crash_io=c)
            if r2["exit"] == "crash":
                bump("crash_points_enumerated")
                nontrivial = True
        # crash in the middle of each write
        writes = [ev for ev in res["io"] if ev[0] == "write"]
        fr = trace.get("crash_frac", [0.5])
        for wi, ev in enumerate(writes):
            k = int(ev[2] * fr[wi % len(fr)])
            r2 = faulted("crash-mid-write-%d" % wi, faults=[{"path": ev[1], "mode": "w", "n": 1, "what": "crash@%d" % k}])
            if r2["exit"] == "crash":
                bump("crash_mid_write")
                bump("crash_points_enumerated")
    return {"violations": vio, "digest": base.digest(events), "nontrivial": nontrivial, "stats": stats, "steps": steps}


def _f7_predicted(text, infos, props, adj):
    """Known finding F7, precisely: the tool re-serialises the parsed declaration list of (a) every top-level
    :root/html rule and (b) every rule whose own declaration it rewrote; that fails iff the list holds a
    declaration tinycss2 could not parse (ParseError)."""
    import tinycss2
    from tinycss2 import ast as A

    def has_err(node):
        return any(isinstance(d, A.ParseError) for d in tinycss2.parse_declaration_list(node.content))

    for ri in infos:
        if ri.is_root and has_err(ri.node):
            return True
        if ri.selector in adj and has_err(ri.node):
            m = refs._VAR_RE.match((ri.color_value or "").strip()) if "var(" in (ri.color_value or "").lower() else None
            if not (m and m.group(1) in props):  # the rule's own declaration was rewritten (literal or fallback colour)
                return True
    return False


def _top_level_parse_error(text):
    import tinycss2
    from tinycss2 import ast as A

    return any(isinstance(n, A.ParseError) for n in tinycss2.parse_stylesheet(text.lstrip("\ufeff")))


def _has_decl_parse_error(text):
    return refs.has_parse_error(text.lstrip("\ufeff"))


def _drop_empty_comments(nf):
    if isinstance(nf, (list, tuple)):
        out = [_drop_empty_comments(x) for x in nf if x != ("comment", "")]
        # re-collapse whitespace markers that became adjacent
        res = []
        for x in out:
            if x == ("ws",) and res and res[-1] == ("ws",):
                continue
            res.append(x)
        return tuple(res) if isinstance(nf, tuple) else res
    return nf


# ---------------------------------------------------------------------------


def shrink(trace):
    if trace.get("real"):
        t = copy.deepcopy(trace)
        t["real"] = None
        yield t
    if trace.get("plans"):
        for i in range(len(trace["plans"])):
            t = copy.deepcopy(trace)
            del t["plans"][i]
            yield t
    if trace.get("enumerate_crashes"):
        t = copy.deepcopy(trace)
        t["enumerate_crashes"] = False
        yield t
    for rel in sorted(trace["tree"]):
        t = copy.deepcopy(trace)
        del t["tree"][rel]
        if t["inv"]["form"] == "file" and t["inv"]["target"] == rel:
            continue
        t["plans"] = [p for p in t.get("plans", ()) if not any(f["path"] in ("tree/" + rel, "tree/" + rel[:-4] + "_cm.css") for f in p["faults"])]
        if any(e.get("ast") or e.get("fault") for e in t["tree"].values()):
            yield t
    for k in list(trace["settings"]):
        t = copy.deepcopy(trace)
        del t["settings"][k]
        yield t
    if trace["env"] != {"cwd": "cwd", "tty": False, "argform": "abs"}:
        t = copy.deepcopy(trace)
        old = t["env"]["cwd"]
        t["env"] = {"cwd": "cwd", "tty": False, "argform": "abs"}
        for p in t.get("plans", ()):
            for f in p["faults"]:
                if f["path"].endswith("cm_colors_report.html"):
                    f["path"] = "cwd/cm_colors_report.html"
        yield t
    if trace.get("pre_report"):
        t = copy.deepcopy(trace)
        t["pre_report"] = False
        yield t
    for rel in sorted(trace.get("outside") or {}):
        t = copy.deepcopy(trace)
        del t["outside"][rel]
        yield t
    if trace.get("order_key") is not None:
        t = copy.deepcopy(trace)
        t["order_key"] = None
        yield t
    for rel in sorted(trace["tree"]):
        e = trace["tree"][rel]
        if not e.get("ast"):
            continue
        for t2 in shrink_sheet(e["ast"]):
            t = copy.deepcopy(trace)
            t["tree"][rel]["ast"] = t2
            t["tree"][rel]["text"] = gen.render(t2)
            yield t


def sample_view(trace, res):
    return {"env": trace["env"], "inv": trace["inv"], "settings": trace["settings"],
            "tree": {k: (v.get("fault") or ("bystander" if v.get("bystander") else (v.get("text", "")[:160] if v["k"] in ("css", "text") else v["k"])))
                     for k, v in trace["tree"].items()},
            "plans": trace["plans"], "digest": res["digest"], "stats": res["stats"]}
