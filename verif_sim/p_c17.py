"""C17 - no output or files unless asked; previews and reports never change the result.

A run is a history of API operations in one process over one sandbox working directory, with
effect-recording stream and file-system seams around every operation (DESIGN 4, C17).
"""
import copy
import json
import os
import subprocess
import sys

from . import apiops, base, gen, refs, seams
from .apiops import dec, enc
from .base import stream

ID = "C17"
LEVEL = "exploration"
BUDGET = {"quick": 40.0, "thorough": 900.0}
CHUNK = 4
RUN_TIMEOUT = 300.0
SELFTEST_RUNS = 2
RULE = ("one run = a seeded history of 3-20 API operations in one process over one sandbox cwd (construct, is_readable, make_readable "
        "plain/show/save_report/both, make_readable_bulk plain/save_report incl. empty and all-invalid lists; pairs in every spelling "
        "incl. translucent and hsl(); outcomes unchanged/fixed/failed; object re-use) x tty/pipe x NO_COLOR x pre-seeded cwd; every "
        "operation is wrapped in recording stdout/stderr, an audit-hook effect log and before/after snapshots. Non-trivial = the history "
        "contains >= 1 show/save operation that changed a colour and >= 1 plain operation after it; distinct = distinct event-log digest.")
ASSUMPTIONS = [
    "what show prints (and whether it also writes to stderr) is not judged; report-write faults are not injected (the property does not say what happens then)",
    "byte-code caching is excluded (PYTHONDONTWRITEBYTECODE=1; __pycache__/.pyc events ignored)",
    "writes that bypass sys.stdout/sys.stderr (raw fd 1/2) are only seen by the real-subprocess phase, which runs for a sample of histories",
]
PROBES = ["ops", "plain_ops", "show_ops", "save_ops", "show_and_save_ops", "bulk_save_ops", "bulk_save_all_invalid", "bulk_save_empty",
          "outcome_unchanged", "outcome_fixed", "outcome_failed", "preview_hsl", "preview_alpha", "preview_tuple", "preview_named",
          "plain_after_preview", "report_files_written", "tty_runs", "no_color_runs", "decoy_runs", "subprocess_phase",
          "slot_ops", "invalid_pair_with_show", "chdir_ops", "report_after_chdir", "force_color_env_runs", "big_bulk_ops", "tmpdir_on_other_filesystem_runs", "report_blocked_ops", "save_with_report_blocked", "heavy_distinct_fix_ops", "odd_directory_names", "minimal_stdout_runs", "import_time_stdout_closed_runs", "iterator_container_ops", "non_utf8_locale_phase", "caller_source_raised_ops", "ops_from_worker_thread", "fed_back_result_ops", "stale_report_not_utf8", "descriptor_headroom_runs", "identical_report_regenerated_runs"]

QUICK = "cm_colors_quick_report.html"
BULK = "cm_colors_bulk_report.html"


def _pair(rng, vr=False):
    bg = gen.rand_rgb(rng)
    large = rng.random() < 0.25
    thr = refs.target_ratio(premium=vr, large=large)
    if rng.random() < 0.1:
        large = rng.choice((1, 1, None) if large else (0, None, None))  # a truthy / falsy flag that is not a bool
    band = rng.choice(("pass", "pass-hair", "fix", "fix", "fix-hair", "mid", "hard", "same", "random"))
    trgb, _ = gen.pick_text(rng, bg, thr, band)
    m = rng.random()
    if m < 0.2:
        t = gen.spell_alpha(rng, trgb, rng.choice((0.25, 0.5, 0.9, 1.0, 0.0)))[0]
        tk = "alpha"
    else:
        t, tk = gen.spell(rng, trgb, gen.CSS_SPELLINGS + gen.API_ONLY_SPELLINGS + ("hsl", "hsl") + (gen.EXOTIC_API_SPELLINGS if rng.random() < 0.3 else ()))
    b, _ = gen.spell(rng, bg, gen.CSS_SPELLINGS + gen.API_ONLY_SPELLINGS + (gen.EXOTIC_API_SPELLINGS if rng.random() < 0.2 else ()))
    if rng.random() < 0.07:
        t = rng.choice(gen.POISON_STR + gen.POISON_OBJ + gen.NEAR_CSS)
        tk = "poison"
    if rng.random() < 0.04:
        b = rng.choice(gen.POISON_STR)
    return enc(t), enc(b), large, tk


def generate(rseed, tier, idx):
    g = stream(rseed, "gen")
    e = stream(rseed, "env")
    env = {"tty": e.random() < 0.4, "no_color": e.random() < 0.3,
           "decoys": e.random() < 0.5, "old_reports": e.random() < 0.3,
           "force_color": e.choice((None, None, None, None, "FORCE_COLOR", "TTY_COMPATIBLE", "CLICOLOR_FORCE")),
           "tmp_other_fs": e.random() < 0.2,
           "stdout_kind": e.choice(("rec", "rec", "rec", "rec", "rec", "minimal")),
           "close_import_stdout": e.random() < 0.25,
           # a process that may only hold a few more file descriptors than it has when the history starts
           "fd_headroom": e.choice((None, None, None, 8, 12)),
           # what sits under the report names when the history starts: an old report, or a file in another encoding
           "old_report_kind": e.choice(("html", "html", "utf16", "latin1", "binary"))}
    n = g.randint(3, 20 if tier == "thorough" else 12)
    ops = []
    nslots = 0
    for i in range(n):
        m = g.random()
        mode = g.choice((0, 1, 1, 2, None))
        vr = g.random() < 0.35
        if g.random() < 0.08:
            ops.append({"op": "chdir", "to": g.choice(("cwd", "cwd/sub", "cwd2", "cwd2/deep", "site [old]", "v[2]/x", "a b", "\u00fcn\u00ef c\u00f6d\u00e9", "cafe\u0301 the\u0300me", "100%", "{tmpl}", "it's"))})
        if g.random() < 0.04:
            # from here on the report cannot be written in this directory: its name is taken by a directory
            ops.append({"op": "block_reports"})
        if m < 0.08:
            t, b, large, tk = _pair(g)
            ops.append({"op": "color", "v": g.choice((t, b))})
        elif m < 0.16:
            t, b, large, tk = _pair(g)
            ops.append({"op": "pair", "t": t, "b": b, "large": large})
        elif m < 0.62:
            t, b, large, tk = _pair(g, vr)
            op = {"op": "make", "t": t, "b": b, "large": large, "mode": mode, "vr": vr, "tk": tk}
            k = g.random()
            if k < 0.3:
                pass
            elif k < 0.55:
                op["show"] = True
            elif k < 0.8:
                op["save"] = True
            else:
                op["show"] = True
                op["save"] = True
            if (op.get("show") or op.get("save")):
                op["plain_first"] = g.random() < 0.5  # same-process plain call issued before (True) or after (False)
            if g.random() < 0.12:
                op["thread"] = True  # issued from a worker thread, not the thread that imported cm_colors
            ops.append(op)
            if g.random() < 0.3:
                # "feed the result back": a later pair whose text IS the colour the earlier call returned (to reach AAA, or to
                # check it against another background), in whatever format it came back
                t2, b2, large2, _tk2 = _pair(g, True)
                fu = {"op": "make", "t": t, "t_from": len(ops) - 1, "b": g.choice((b, b, b2)), "large": large, "mode": g.choice((0, 1, 1, 2, None)),
                      "vr": g.random() < 0.7, "tk": tk}
                k2 = g.random()
                if k2 < 0.3:
                    fu["show"] = True
                    fu["plain_first"] = g.random() < 0.5
                elif k2 < 0.45:
                    fu["save"] = True
                    fu["plain_first"] = g.random() < 0.5
                ops.append(fu)
        elif m < 0.82:
            kind = g.choice(("normal", "normal", "normal", "empty", "all-invalid", "big", "raising")) if g.random() > 0.02 else "big-fix"
            pairs = []
            if kind == "big-fix":
                # VOLUME: several hundred distinct pairs that all need fixing (strict mode keeps it cheap)
                mode, vr = g.choice((0, 1)), False
                for j in range(g.choice((300, 550))):
                    bg = gen.rand_rgb(g)
                    trgb, _ = gen.pick_text(g, bg, 4.5, g.choice(("fix", "mid")))
                    pairs.append([enc("#%02x%02x%02x" % trgb), enc("#%02x%02x%02x" % bg)])
            if kind == "big":
                # a large batch of cheap (already readable) pairs: anything that only happens "for big inputs"
                k0 = g.randrange(1 << 20)
                for j in range(g.choice((25, 40, 120, 120, 260, 450))):
                    pairs.append([enc("#%06x" % (((k0 + 7919 * j) % (1 << 24)) & 0x3f3f3f)), enc("#ffffff")])
                for _ in range(g.randint(0, 2)):
                    t, b, large, tk = _pair(g, vr)
                    pairs.insert(g.randrange(len(pairs)), [t, b])
            if kind in ("normal", "raising"):
                for _ in range(g.randint(1, 4)):
                    t, b, large, tk = _pair(g, vr)
                    pairs.append([t, b] if g.random() < 0.6 else [t, b, large])
            elif kind == "all-invalid":
                for _ in range(g.randint(1, 3)):
                    pairs.append([enc(g.choice(gen.POISON_STR)), enc(g.choice(gen.POISON_STR + ["#fff"]))])
                    pairs[-1][0] = enc(g.choice(gen.POISON_STR))
            op = {"op": "bulk", "pairs": pairs, "mode": mode, "vr": vr, "bkind": kind, "container": g.choice(("list", "list", "tuple", "iter", "gen"))}
            if kind == "raising":
                # the caller's data source raises after some entries: the call raises (with or without save_report)
                op["container"] = "gen-raise"
                op["raise_at"] = g.randint(0, len(pairs))
            if g.random() < 0.55 and kind != "big-fix":
                op["save"] = True
                op["plain_first"] = g.random() < 0.5
            if g.random() < 0.1:
                op["thread"] = True
            ops.append(op)
        elif m < 0.9 or nslots == 0:
            t, b, large, tk = _pair(g)
            ops.append({"op": "newpair", "slot": nslots, "t": t, "b": b, "large": large})
            nslots += 1
        else:
            op = {"op": "make_on", "slot": g.randrange(nslots), "mode": mode, "vr": vr}
            k = g.random()
            if k < 0.4:
                op["show"] = True
            elif k < 0.6:
                op["save"] = True
            if op.get("show") or op.get("save"):
                op["plain_first"] = g.random() < 0.5
            ops.append(op)
    if g.random() < 0.1:
        # the very same report regenerated again and again by a long-lived process (a watcher, a notebook cell re-run)
        sv = [o for o in ops if o.get("save") and o["op"] in ("make", "bulk") and o.get("bkind") in (None, "normal")]
        if sv:
            rep = {k: v for k, v in g.choice(sv).items() if k not in ("thread",)}
            rep["plain_first"] = True
            ops.extend(copy.deepcopy(rep) for _ in range(g.randint(10, 14)))
            env["repeated_report"] = True
    return {"prop": ID, "ops": ops, "env": env, "subproc": idx % 8 == 5, "subproc_locale": "C" if idx % 16 == 13 else None}


# ---------------------------------------------------------------------------


def _strip(op):
    return {k: v for k, v in op.items() if k not in ("plain_first", "tk", "bkind", "t_from")}


def execute(trace):
    env = trace["env"]
    events, vio, stats = [], [], {}

    def bump(k, n=1):
        stats[k] = stats.get(k, 0) + n

    def V(kind, i, op, **detail):
        vio.append({"kind": kind, "detail": dict(detail, index=i, op=_strip(op)), "features": {"kind": kind, "op": op["op"]}})

    cache = {}
    ctx_model = apiops.Ctx()
    # ---- pristine oracles first (nothing of cm_colors has run in this process yet)
    oracles = []
    trace = dict(trace, ops=copy.deepcopy(trace["ops"]))  # (fed-back texts are filled in below, on a private copy)
    for i_op, op in enumerate(trace["ops"]):
        if op.get("t_from") is not None:
            k_src = op["t_from"]
            src = oracles[k_src].get("plain", {}).get("ret") if 0 <= k_src < i_op and trace["ops"][k_src]["op"] == "make" else None
            got = dec(src) if src is not None else None
            if isinstance(got, tuple) and len(got) == 2 and got[0] is not None:
                op["t"] = enc(got[0])  # the colour the earlier call returns (by the property: with or without preview)
                bump("fed_back_result_ops")
        sop = _strip(op)
        if sop["op"] in ("chdir", "block_reports"):
            oracles.append({})
            continue
        if sop["op"] == "newpair":
            ctx_model.slot_spec[sop["slot"]] = {"t": sop["t"], "b": sop["b"], "large": sop.get("large", False)}
        eq = apiops.plain_variant(apiops.fresh_equivalent(sop, ctx_model))
        o = {"plain": apiops.oracle(eq, cache)}
        if sop.get("save") and sop["op"] in ("make", "make_on", "bulk") and sop.get("container") != "gen-raise":
            # what a fresh process writes as the report of this very call (only consulted when the call leaves the file alone)
            fe = {k: v for k, v in apiops.fresh_equivalent(sop, ctx_model).items() if k not in ("show", "thread")}
            o["fresh_files"] = apiops.oracle(fe, cache).get("files", {})
        if eq["op"] in ("make",):
            o["valid"] = dec(apiops.oracle({"op": "pair", "t": eq["t"], "b": eq["b"], "large": eq.get("large", False)}, cache).get("ret", [False]))[0]
        if eq["op"] == "bulk":
            o["n_valid"] = sum(1 for e in eq["pairs"]
                               if dec(apiops.oracle({"op": "pair", "t": e[0], "b": e[1], "large": False}, cache).get("ret", [False]))[0])
        oracles.append(o)

    root = base.new_sandbox("c17")
    try:
        cwd = os.path.join(root, "cwd")
        os.makedirs(cwd)
        if env["decoys"]:
            bump("decoy_runs")
            for nme, txt in (("notes.txt", "keep\n"), ("style.css", "a{color:#777}\n"), ("cm_colors_report.html", "<html>cli</html>")):
                with open(os.path.join(cwd, nme), "w") as f:
                    f.write(txt)
        if env["old_reports"]:
            kind = env.get("old_report_kind", "html")
            data = {"html": b"<html>old</html>", "utf16": "<html>alter Bericht \u00e4\u00f6\u00fc</html>".encode("utf-16"),
                    "latin1": "<html>r\u00e9sum\u00e9 caf\u00e9</html>".encode("latin-1"), "binary": bytes(range(128, 256)) * 3}[kind]
            for nme in (QUICK, BULK):
                with open(os.path.join(cwd, nme), "wb") as f:
                    f.write(data)
            if kind != "html":
                bump("stale_report_not_utf8")
        if env.get("repeated_report"):
            bump("identical_report_regenerated_runs")
        if env["tty"]:
            bump("tty_runs")
        if env["no_color"]:
            bump("no_color_runs")
        if env.get("force_color"):
            bump("force_color_env_runs")
        ctx = apiops.Ctx()
        seen_preview_change = False
        nontrivial = False
        if env.get("stdout_kind") == "minimal":
            bump("minimal_stdout_runs")
        if env.get("close_import_stdout"):
            # the streams that were sys.stdout/sys.stderr when cm_colors was IMPORTED are gone by now (the program
            # re-pointed its output and closed the start-up streams): nothing may still hold on to them
            bump("import_time_stdout_closed_runs")
            for st in {id(x): x for x in (sys.__stdout__, sys.__stderr__, sys.stdout, sys.stderr) if x is not None}.values():
                try:
                    st.close()
                except Exception:
                    pass

        cur = ["cwd"]
        blocked = set()
        other_tmp = None
        if env.get("tmp_other_fs"):
            cand = os.path.join("/tmp" if root.startswith("/dev/shm") else "/dev/shm", "cmverif-tmp-%d-%s" % (os.getpid(), os.path.basename(root)))
            try:
                os.makedirs(cand, exist_ok=True)
                if os.stat(cand).st_dev != os.stat(root).st_dev:
                    other_tmp = cand
                    bump("tmpdir_on_other_filesystem_runs")
                else:
                    os.rmdir(cand)
            except OSError:
                other_tmp = None

        fd_lim = [None]

        def run(op):
            with apiops.Effects(root, tty=env["tty"], no_color=env["no_color"], cwd_rel=cur[0], extra_env=env.get("force_color"),
                                tmpdir_abs=other_tmp, stdout_kind=env.get("stdout_kind", "rec")) as fx:
                old = None
                if env.get("fd_headroom"):
                    import resource

                    if fd_lim[0] is None:
                        # fixed at the first operation: `headroom` free slots above what the process holds then
                        free, lim = 0, 0
                        while free < env["fd_headroom"]:
                            try:
                                os.fstat(lim)
                            except OSError:
                                free += 1
                            lim += 1
                        fd_lim[0] = lim
                        bump("descriptor_headroom_runs")
                    old = resource.getrlimit(resource.RLIMIT_NOFILE)
                    resource.setrlimit(resource.RLIMIT_NOFILE, (min(fd_lim[0], old[0]), old[1]))
                try:
                    r = apiops.run_op(op, ctx)
                finally:
                    if old is not None:
                        resource.setrlimit(resource.RLIMIT_NOFILE, old)
            return r, fx.summary()

        def check_plain(i, op, r, fxs):
            if fxs["stdout"]:
                V("stdout-on-plain", i, op, stdout=fxs["stdout"][:300])
            if fxs["stderr"]:
                V("stderr-on-plain", i, op, stderr=fxs["stderr"][:300])
            if fxs["writes"] or fxs["created"] or fxs["removed"] or fxs["changed"]:
                V("fs-on-plain", i, op, writes=fxs["writes"][:5], created=fxs["created"], removed=fxs["removed"], changed=fxs["changed"])

        for i, op in enumerate(trace["ops"]):
            sop = _strip(op)
            if sop["op"] == "block_reports":
                for nme in (QUICK, BULK):
                    pth = os.path.join(root, cur[0], nme)
                    if os.path.isfile(pth):
                        os.unlink(pth)
                    os.makedirs(pth, exist_ok=True)
                blocked.add(cur[0])
                bump("report_blocked_ops")
                events.append((i, "block_reports", cur[0]))
                continue
            if sop["op"] == "chdir":
                # the caller changes its working directory between calls (os.chdir in the caller's process)
                cur[0] = sop["to"]
                if not cur[0].replace("/", "").isalnum():
                    bump("odd_directory_names")
                os.makedirs(os.path.join(root, cur[0]), exist_ok=True)
                bump("chdir_ops")
                events.append((i, "chdir", cur[0]))
                continue
            bump("ops")
            preview = bool(sop.get("show") or sop.get("save"))
            orc = oracles[i]
            if sop["op"] in ("newpair", "make_on", "readable_on"):
                bump("slot_ops")
            if op.get("container") in ("iter", "gen", "gen-raise"):
                bump("iterator_container_ops")
            if op.get("thread"):
                bump("ops_from_worker_thread")
            if op.get("bkind") in ("big", "big-fix"):
                bump("big_bulk_ops")
            if op.get("bkind") == "big-fix":
                bump("heavy_distinct_fix_ops")
            if not preview:
                bump("plain_ops")
                r, fxs = run(sop)
                events.append((i, r.get("ret"), r.get("exc"), {k: v for k, v in fxs.items() if k != "tmpdir"}))
                check_plain(i, op, r, fxs)
                if seen_preview_change:
                    bump("plain_after_preview")
                    nontrivial = True
                # a plain op is also a result probe: it must equal the pristine result (history independence is C15's,
                # but "previews never change the result" includes results of later calls)
                if sop["op"] != "newpair" and "ret" in orc["plain"] and r.get("ret") != orc["plain"]["ret"]:
                    V("result-differs", i, op, got=r.get("ret"), exc=r.get("exc"), pristine_plain=orc["plain"]["ret"])
                if r.get("mutated"):
                    V("result-differs", i, op, note="make_readable altered the ColorPair", mutated=r["mutated"])
                continue
            # ---- show / save operation, with the same-process plain call before or after it
            plain_op = apiops.plain_variant(sop)
            if op.get("plain_first"):
                rp, fxp = run(plain_op)
                check_plain(i, plain_op, rp, fxp)
            before_paths = set(seams.snapshot(root))
            r, fxs = run(sop)
            if not op.get("plain_first"):
                rp, fxp = run(plain_op)
                check_plain(i, plain_op, rp, fxp)
            events.append((i, r.get("ret"), r.get("exc"), {k: v for k, v in fxs.items() if k != "tmpdir"}, rp.get("ret")))
            if sop.get("show") and sop.get("save"):
                bump("show_and_save_ops")
            elif sop.get("show"):
                bump("show_ops")
            else:
                bump("save_ops")
            if sop["op"] == "bulk":
                bump("bulk_save_ops")
                if op.get("bkind") == "all-invalid":
                    bump("bulk_save_all_invalid")
                if op.get("bkind") == "empty":
                    bump("bulk_save_empty")
            tk = op.get("tk")
            if tk in ("hsl", "alpha", "tuple", "list", "name", "nameU"):
                bump("preview_" + {"list": "tuple", "nameU": "named", "name": "named"}.get(tk, tk))
            if sop.get("save") and cur[0] in blocked:
                # injected fault: the report cannot be written here. The property does not say what happens then, so only
                # the effects clause is asserted: nothing else may be left behind (and the call may raise)
                bump("save_with_report_blocked")
                left = sorted(set(fxs["created"]) | set(fxs["changed"]) | set(fxs["removed"]))
                if left:
                    V("unexpected-file", i, op, paths=left, note="report could not be written (its name is a directory); something else was left behind")
                continue
            if "exc" in r:
                if op.get("bkind") == "raising" and "data source failed" in r["exc"] and orc["plain"].get("exc") == r["exc"]:
                    # the caller's own iterator raised: the call raises exactly as the plain call does; whatever was
                    # collected so far must not leak anywhere but (at most) the documented report
                    bump("caller_source_raised_ops")
                    left = sorted(t for t in set(fxs["created"]) | set(fxs["changed"]) | set(fxs["removed"]) if t != cur[0] + "/" + BULK)
                    if left:
                        V("unexpected-file", i, op, paths=left, note="the caller's data source raised during a save_report call")
                else:
                    V("preview-raised", i, op, exc=r["exc"])
                continue
            if "ret" in orc["plain"]:
                if r["ret"] != orc["plain"]["ret"]:
                    V("result-differs", i, op, with_preview=r["ret"], pristine_plain=orc["plain"]["ret"])
                elif rp.get("ret") != r["ret"]:
                    V("result-differs", i, op, with_preview=r["ret"], same_process_plain=rp.get("ret"), plain_first=bool(op.get("plain_first")))
            if r.get("mutated"):
                V("result-differs", i, op, note="make_readable altered the ColorPair", mutated=r["mutated"])
            # outcome classes
            if sop["op"] in ("make", "make_on") and orc.get("valid"):
                col, ok = dec(r["ret"])
                eq = apiops.fresh_equivalent(sop, ctx)
                src = refs.any_rgb(dec(eq["t"]), over=refs.any_rgb(dec(eq["b"]), over=(255, 255, 255)))
                if not ok:
                    bump("outcome_failed")
                elif refs.any_rgb(col) == src:
                    bump("outcome_unchanged")
                else:
                    bump("outcome_fixed")
                    seen_preview_change = True
            elif sop["op"] in ("make", "make_on"):
                bump("invalid_pair_with_show")
            # allowed file effects
            allowed = set()
            must = None
            if sop.get("save"):
                if sop["op"] in ("make", "make_on"):
                    allowed.add(cur[0] + "/" + QUICK)
                    if orc.get("valid"):
                        must = cur[0] + "/" + QUICK
                else:
                    allowed.add(cur[0] + "/" + BULK)
                    if orc.get("n_valid", 0) > 0:
                        must = cur[0] + "/" + BULK
            # judged on the END state (a temporary file that is renamed into the report, or removed again, leaves nothing
            # else behind), plus: nothing outside the sandbox / the temp directory may be opened for writing, and no
            # pre-existing file other than the report may be touched at any moment
            touched = set(fxs["created"]) | set(fxs["changed"]) | set(fxs["removed"])
            for w in fxs["writes"]:
                pths = [w[1]] if w[0] == "open" else [a for a in w[1] if isinstance(a, str)]
                for pth in pths:
                    if pth.startswith("<SBX>/"):
                        rel = pth[6:]
                        if rel in before_paths and rel not in allowed:
                            touched.add(rel)
                    elif pth.startswith("/") and not (fxs.get("tmpdir") and pth.startswith(fxs["tmpdir"])):
                        touched.add(pth)
            bad = sorted(t for t in touched if t not in allowed)
            if bad:
                V("unexpected-file", i, op, paths=bad, allowed=sorted(allowed))
            if must:
                # the documented report must be there afterwards: written or refreshed by this call, or - if the call left the
                # file alone - already holding exactly what a fresh process writes for this call (a tool may skip an identical
                # rewrite; it may not leave a stale or foreign file in place)
                wrote = any(e[0] == "open" and e[1] == must and "w" in e[2] and e[3] == "ok" for e in fxs["io"]) or must in fxs["created"] or must in fxs["changed"]
                ent_now = seams.snapshot(root).get(must)
                if ent_now is None or ent_now[0] != "f":
                    V("report-missing", i, op, expected=must)
                elif wrote:
                    bump("report_files_written")
                    if cur[0] != "cwd":
                        bump("report_after_chdir")
                else:
                    want = (orc.get("fresh_files") or {}).get(must.rsplit("/", 1)[-1])
                    if want is None:
                        bump("untouched_report_not_judged")  # (no fresh-process report to compare with)
                    elif base.digest(ent_now[1]) == want:
                        bump("identical_report_left_alone")
                    else:
                        V("report-missing", i, op, expected=must, note="the file under the report's name was not touched and is not what a fresh process writes")
        # ---- real-interpreter phase under a NON-UTF-8 locale: save_report operations (no in-process seam can change
        #      the interpreter's locale encoding); results must equal the pristine plain results, the documented
        #      report must appear, nothing else
        if trace.get("subproc_locale") == "C":
            bump("non_utf8_locale_phase")
            sops = []
            for o, orc in zip(trace["ops"], oracles):
                so = _strip(o)
                if so["op"] in ("make", "bulk") and so.get("save") and not so.get("show") and so.get("container", "list") in ("list", "tuple"):
                    sops.append((so, orc))
            if sops:
                lroot = base.new_sandbox("c17loc")
                try:
                    for d in ("cwd", "home", "tmp"):
                        os.makedirs(os.path.join(lroot, d))
                    code = ("import sys, json\nfrom verif_sim import apiops\nops = json.loads(sys.argv[1])\nctx = apiops.Ctx()\nout = []\n"
                            "for op in ops:\n    r = apiops.run_op(op, ctx)\n    out.append({k: r.get(k) for k in ('ret', 'exc') if k in r})\n"
                            "sys.stdout.write('\\n@@RESULT@@' + json.dumps(out))\n")
                    envp = dict(os.environ, HOME=os.path.join(lroot, "home"), TMPDIR=os.path.join(lroot, "tmp"), COLUMNS="80", LINES="24",
                                LC_ALL="C", LANG="C", PYTHONUTF8="0", PYTHONCOERCECLOCALE="0", PYTHONIOENCODING="utf-8")
                    pr = subprocess.run([sys.executable, "-c", code, json.dumps([so for so, _ in sops])], cwd=os.path.join(lroot, "cwd"), env=envp,
                                        capture_output=True, timeout=300)
                    txt = pr.stdout.decode("utf-8", "replace")
                    if pr.returncode != 0 or "@@RESULT@@" not in txt:
                        raise base.HarnessError("non-UTF-8-locale phase failed: " + pr.stderr.decode("utf-8", "replace")[-600:])
                    got = json.loads(txt.rsplit("@@RESULT@@", 1)[1])
                    after_l = seams.snapshot(lroot)
                    events.append(("locale-phase", got, sorted(k for k in after_l if k.startswith("cwd/"))))
                    for (so, orc), g_ in zip(sops, got):
                        if "exc" in g_:
                            V("preview-raised", -2, so, exc=g_["exc"], locale="LC_ALL=C PYTHONUTF8=0")
                        elif "ret" in orc["plain"] and g_.get("ret") != orc["plain"]["ret"]:
                            V("result-differs", -2, so, with_preview=g_.get("ret"), pristine_plain=orc["plain"]["ret"], locale="LC_ALL=C PYTHONUTF8=0")
                    stray = sorted(k for k in after_l if k not in ("cwd", "home", "tmp", "cwd/" + QUICK, "cwd/" + BULK))
                    empty = [k for k in ("cwd/" + QUICK, "cwd/" + BULK) if k in after_l and after_l[k][0] == "f" and len(after_l[k][1]) == 0]
                    if stray or empty:
                        V("unexpected-file", -2, {"op": "locale-phase"}, paths=stray, empty_reports=empty, locale="LC_ALL=C PYTHONUTF8=0")
                finally:
                    base.rm_tree(lroot)

        # ---- real-subprocess phase: plain operations only, real fds on pipes
        if trace.get("subproc"):
            bump("subprocess_phase")
            plain_ops = [_strip(o) for o in trace["ops"] if o["op"] in ("color", "pair", "make", "bulk")]  # (chdir ops are not part of it)
            plain_ops = [apiops.plain_variant(o) for o in plain_ops]
            sroot = base.new_sandbox("c17sub")
            try:
                for d in ("cwd", "home", "tmp"):
                    os.makedirs(os.path.join(sroot, d))
                before = seams.snapshot(sroot)
                code = ("import sys, json\nfrom verif_sim import apiops\nops = json.loads(sys.argv[1])\nctx = apiops.Ctx()\n"
                        "for op in ops:\n    apiops.run_op(op, ctx)\n")
                envp = dict(os.environ, HOME=os.path.join(sroot, "home"), TMPDIR=os.path.join(sroot, "tmp"), COLUMNS="80", LINES="24")
                p = subprocess.run([sys.executable, "-c", code, json.dumps(plain_ops)], cwd=os.path.join(sroot, "cwd"), env=envp,
                                   capture_output=True, timeout=240)
                after = seams.snapshot(sroot)
                events.append(("subproc", p.returncode, len(p.stdout), len(p.stderr)))
                if p.returncode != 0:
                    raise base.HarnessError("subprocess phase failed: " + p.stderr.decode("utf-8", "replace")[-800:])
                if p.stdout:
                    V("stdout-on-plain", -1, {"op": "subprocess"}, stdout=p.stdout.decode("utf-8", "replace")[:300])
                if p.stderr:
                    V("stderr-on-plain", -1, {"op": "subprocess"}, stderr=p.stderr.decode("utf-8", "replace")[:300])
                if before != after:
                    c, r_, ch = seams.snap_diff(before, after)
                    V("fs-on-plain", -1, {"op": "subprocess"}, created=c, removed=r_, changed=ch)
            finally:
                base.rm_tree(sroot)
    finally:
        base.rm_tree(root)
        try:
            if other_tmp:
                base.rm_tree(other_tmp)
        except NameError:
            pass
    return {"violations": vio, "digest": base.digest(events), "nontrivial": nontrivial, "stats": stats, "steps": stats.get("ops", 0)}


# ---------------------------------------------------------------------------


def shrink(trace):
    ops = trace["ops"]
    if trace.get("subproc"):
        t = copy.deepcopy(trace)
        t["subproc"] = False
        yield t
    if trace.get("subproc_locale"):
        t = copy.deepcopy(trace)
        t["subproc_locale"] = None
        yield t
    used_slots = {o["slot"] for o in ops if o["op"] in ("make_on", "readable_on")}
    for i in range(len(ops)):
        if ops[i]["op"] == "newpair" and ops[i]["slot"] in used_slots:
            continue
        t = copy.deepcopy(trace)
        del t["ops"][i]
        if t["ops"]:
            yield t
    if any(trace["env"].get(k) for k in ("tty", "no_color", "decoys", "old_reports", "force_color", "tmp_other_fs")):
        for k in ("tty", "no_color", "decoys", "old_reports", "force_color", "tmp_other_fs", "close_import_stdout"):
            if trace["env"].get(k):
                t = copy.deepcopy(trace)
                t["env"][k] = None if k == "force_color" else False
                yield t
    for i, o in enumerate(ops):
        for k in ("show", "save"):
            if o.get(k) and (o.get("show") and o.get("save")):
                t = copy.deepcopy(trace)
                del t["ops"][i][k]
                yield t
        if o["op"] == "bulk" and len(o["pairs"]) > 1:
            for j in range(len(o["pairs"])):
                t = copy.deepcopy(trace)
                del t["ops"][i]["pairs"][j]
                yield t
        for k in ("mode", "vr", "large"):
            if o.get(k):
                t = copy.deepcopy(trace)
                t["ops"][i][k] = None if k == "mode" else False
                yield t


def sample_view(trace, res):
    return {"env": trace["env"], "ops": [_strip(o) for o in trace["ops"]], "digest": res["digest"], "stats": res["stats"]}
