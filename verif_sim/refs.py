"""Reference models that are independent of cm-colors.

ref_wcag        WCAG 2 relative luminance / contrast ratio, written from the WCAG text.
ref_css_color   CSS Color 3 reader (tinycss2.color3, a dependency, plus rebeccapurple).
cascade         reference cascade for exactly the CSS the generator emits (DESIGN A.2),
                applied to a tinycss2 parse of any stylesheet text (input or written output).
normal_form     structural normal form of a stylesheet (C09).
"""
import re

import tinycss2
import tinycss2.color3 as _c3
from tinycss2 import ast as A

# ---------------------------------------------------------------------------
# WCAG 2


def _lin(c8):
    c = c8 / 255.0
    return c / 12.92 if c <= 0.03928 else ((c + 0.055) / 1.055) ** 2.4


def luminance(rgb):
    r, g, b = rgb
    return 0.2126 * _lin(r) + 0.7152 * _lin(g) + 0.0722 * _lin(b)


def contrast(rgb1, rgb2):
    l1, l2 = luminance(rgb1), luminance(rgb2)
    hi, lo = (l1, l2) if l1 >= l2 else (l2, l1)
    return (hi + 0.05) / (lo + 0.05)


def target_ratio(premium=False, large=False):
    if premium:
        return 4.5 if large else 7.0
    return 3.0 if large else 4.5


def label(ratio, large=False):
    """'very readable' / 'readable' / 'not readable' per WCAG AAA/AA thresholds (inclusive)."""
    aaa, aa = (4.5, 3.0) if large else (7.0, 4.5)
    if ratio >= aaa:
        return "very readable"
    if ratio >= aa:
        return "readable"
    return "not readable"


BOUNDARY_EPS = 1e-9


def near_threshold(ratio, thresholds=(3.0, 4.5, 7.0)):
    return any(abs(ratio - t) < BOUNDARY_EPS for t in thresholds)


# ---------------------------------------------------------------------------
# CSS colour reader

NAMED = {k: v for k, v in _c3._COLOR_KEYWORDS.items() if isinstance(v, _c3.RGBA) and v.alpha == 1.0}
NAMED_RGB = {k: tuple(int(round(c * 255)) for c in v[:3]) for k, v in NAMED.items()}
NAMED_RGB["rebeccapurple"] = (0x66, 0x33, 0x99)


def css_rgba(value):
    """Parse a CSS colour value string. Returns (r, g, b, a) with r,g,b floats 0..255, or None."""
    if not isinstance(value, str):
        return None
    v = value.strip()
    if v.lower() == "rebeccapurple":
        return (102.0, 51.0, 153.0, 1.0)
    try:
        c = _c3.parse_color(v)
    except Exception:
        c = None
    if isinstance(c, _c3.RGBA):
        return (c.red * 255.0, c.green * 255.0, c.blue * 255.0, c.alpha)
    if c is not None:
        return None  # currentcolor
    # CSS Color 4 spellings of sRGB colours (space-separated components, "/ alpha", alpha inside rgb())
    try:
        import tinycss2.color4 as _c4

        c = _c4.parse_color(v)
        if c is None or isinstance(c, str) or c.space not in ("srgb", "hsl"):
            return None
        c = c.to("srgb")
        r, g, b = c.coordinates
        return (r * 255.0, g * 255.0, b * 255.0, c.alpha)
    except Exception:
        return None


def css_rgb(value, over=None):
    """8-bit (r, g, b) the value denotes; translucent values are composited over `over`
    (an rgb triple) source-over; returns None for invalid values and for translucent
    values without `over`."""
    c = css_rgba(value)
    if c is None:
        return None
    r, g, b, a = c
    if a >= 1.0:
        return tuple(int(round(min(255.0, max(0.0, x)))) for x in (r, g, b))
    if over is None:
        return None
    return tuple(int(round(a * x + (1 - a) * o)) for x, o in zip((r, g, b), over))


def any_rgb(value, over=None):
    """Like css_rgb but also accepts an int triple (API results in tuple format)."""
    if isinstance(value, (tuple, list)) and len(value) == 3 and all(isinstance(x, int) and not isinstance(x, bool) for x in value):
        if all(0 <= x <= 255 for x in value):
            return tuple(value)
        return None
    return css_rgb(value, over)


# ---------------------------------------------------------------------------
# cascade

_VAR_RE = re.compile(r"^var\(\s*(--[A-Za-z0-9_-]+)\s*(?:,\s*(.*))?\)$", re.S)


def _ser(tokens):
    return tinycss2.serialize(tokens).strip()


class RuleInfo:
    __slots__ = ("selector", "path", "depth", "color_decls", "bg_decls", "color_value", "bg_value",
                 "eff_text", "eff_bg", "var_refs", "text_refs", "bg_refs", "is_root", "node", "decl_names")

    def as_dict(self):
        return {k: getattr(self, k) for k in self.__slots__ if k not in ("node",)}


def _winner(decls):
    """Last !important declaration if any, else last."""
    imp = [d for d in decls if d.important]
    pool = imp or decls
    return pool[-1] if pool else None


def _decls(content):
    return [d for d in tinycss2.parse_declaration_list(content, skip_whitespace=True, skip_comments=True)
            if isinstance(d, A.Declaration)]


def custom_properties(rules):
    """Global custom properties from top-level :root / html rules -> {name: value string}."""
    best = {}
    order = 0
    for r in rules:
        if isinstance(r, A.QualifiedRule):
            sel = _ser(r.prelude)
            if sel in (":root", "html"):
                spec = 1 if sel == ":root" else 0
                for d in _decls(r.content):
                    if d.name.startswith("--"):
                        order += 1
                        rank = (1 if d.important else 0, spec, order)
                        if d.name not in best or rank > best[d.name][0]:
                            best[d.name] = (rank, _ser(d.value))
    return {k: v[1] for k, v in best.items()}


def custom_property_defs(rules):
    """All definitions per name, in source order: {name: [(selector, value, important)]}."""
    out = {}
    for r in rules:
        if isinstance(r, A.QualifiedRule):
            sel = _ser(r.prelude)
            if sel in (":root", "html"):
                for d in _decls(r.content):
                    if d.name.startswith("--"):
                        out.setdefault(d.name, []).append((sel, _ser(d.value), bool(d.important)))
    return out


def resolve(value, props, seen=(), refs=None):
    """Resolve var() per DESIGN A.2. Returns the substituted value string or None (invalid)."""
    if value is None:
        return None
    v = value.strip()
    if "var(" not in v.lower():
        return v
    m = _VAR_RE.match(v)
    if not m:
        return None
    name, fb = m.group(1), m.group(2)
    if refs is not None:
        refs.append(name)
    if name in props and name not in seen:
        got = resolve(props[name], props, tuple(seen) + (name,), refs)
        if got is not None and got != "":
            return got
    if fb is not None and fb.strip() != "":
        return resolve(fb, props, seen, refs)
    return None


def analyse(css_text, default_bg="white"):
    """Reference reading of a stylesheet: list of RuleInfo for every qualified rule (any depth
    under @media/@supports) in document order, plus the custom property table."""
    rules = tinycss2.parse_stylesheet(css_text, skip_whitespace=True, skip_comments=True)
    props = custom_properties(rules)
    infos = []

    def walk(nodes, path, depth):
        for i, n in enumerate(nodes):
            if isinstance(n, A.QualifiedRule):
                ri = RuleInfo()
                ri.node = n
                ri.selector = _ser(n.prelude)
                ri.path = path + (i,)
                ri.depth = depth
                ds = _decls(n.content)
                ri.decl_names = [d.name for d in ds]
                cds = [d for d in ds if d.lower_name == "color"]
                bds = [d for d in ds if d.lower_name == "background-color"]
                ri.color_decls = [(d.name, _ser(d.value), bool(d.important)) for d in cds]
                ri.bg_decls = [(d.name, _ser(d.value), bool(d.important)) for d in bds]
                cw, bw = _winner(cds), _winner(bds)
                ri.color_value = _ser(cw.value) if cw else None
                ri.bg_value = _ser(bw.value) if bw else None
                trefs, brefs = [], []
                ri.eff_text = resolve(ri.color_value, props, (), trefs) if cw else None
                ri.eff_bg = resolve(ri.bg_value, props, (), brefs) if bw else resolve(default_bg, props, (), brefs)
                ri.text_refs, ri.bg_refs = trefs, brefs
                ri.var_refs = trefs + brefs
                ri.is_root = ri.selector in (":root", "html") and depth == 0
                infos.append(ri)
            elif isinstance(n, A.AtRule) and n.lower_at_keyword in ("media", "supports") and n.content is not None:
                sub = tinycss2.parse_rule_list(n.content, skip_whitespace=True, skip_comments=True)
                walk(sub, path + (i,), depth + 1)

    walk(rules, (), 0)
    return infos, props


def effective_pair_rgb(ri):
    """(text_rgb, bg_rgb) of a RuleInfo by the reference colour reader, None where invalid."""
    bg = css_rgb(ri.eff_bg, over=(255, 255, 255)) if ri.eff_bg is not None else None
    tx = css_rgb(ri.eff_text, over=bg) if (ri.eff_text is not None and bg is not None) else None
    return tx, bg


# ---------------------------------------------------------------------------
# structural normal form (C09)


def _tok_nf(tokens):
    """Token list -> list of hashable items with whitespace runs collapsed and trimmed."""
    out = []
    for t in tokens:
        ty = t.type
        if ty == "whitespace":
            if out and out[-1] != ("ws",):
                out.append(("ws",))
            continue
        if ty == "comment":
            out.append(("comment", t.value))
        elif ty == "literal":
            out.append(("lit", t.value))
        elif ty == "ident":
            out.append(("ident", t.value))
        elif ty == "at-keyword":
            out.append(("atkw", t.value))
        elif ty == "hash":
            out.append(("hash", t.value, t.is_identifier))
        elif ty == "string":
            out.append(("str", t.value))
        elif ty == "url":
            out.append(("url", t.value))
        elif ty == "unicode-range":
            out.append(("urange", t.start, t.end))
        elif ty == "number":
            out.append(("num", t.representation))
        elif ty == "percentage":
            out.append(("pct", t.representation))
        elif ty == "dimension":
            out.append(("dim", t.representation, t.unit))
        elif ty == "() block":
            out.append(("()", tuple(_tok_nf(t.content))))
        elif ty == "[] block":
            out.append(("[]", tuple(_tok_nf(t.content))))
        elif ty == "{} block":
            out.append(("{}", tuple(_tok_nf(t.content))))
        elif ty == "function":
            out.append(("fn", t.name, tuple(_tok_nf(t.arguments))))
        elif ty == "error":
            out.append(("error", t.kind))
        else:
            out.append((ty, tinycss2.serialize([t])))
    while out and out[0] == ("ws",):
        out.pop(0)
    while out and out[-1] == ("ws",):
        out.pop()
    return out


MASKED = ("MASKED",)


def _decl_list_nf(content, mask=None, selector=None):
    out = []
    mask_color = mask is not None and selector in mask.get("rules", ())
    mask_props = mask.get("props", ()) if (mask is not None and selector in (":root", "html")) else ()
    for d in tinycss2.parse_declaration_list(content, skip_whitespace=True, skip_comments=False):
        if isinstance(d, A.Declaration):
            if (mask_color and d.lower_name == "color") or d.name in mask_props:
                # the VALUE may change; comments written inside it must still be carried through
                out.append(("decl", d.name, MASKED + tuple(("comment", t.value) for t in d.value if t.type == "comment"), bool(d.important)))
            else:
                out.append(("decl", d.name, tuple(_tok_nf(d.value)), bool(d.important)))
        elif isinstance(d, A.Comment):
            out.append(("comment", d.value))
        elif isinstance(d, A.AtRule):
            out.append(("at", d.at_keyword, tuple(_tok_nf(d.prelude)),
                        None if d.content is None else tuple(_tok_nf(d.content))))
        elif isinstance(d, A.ParseError):
            out.append(("parse-error", d.kind))
        else:
            out.append((d.type, tinycss2.serialize([d])))
    return out


def _rule_list_nf(nodes, mask=None):
    out = []
    for n in nodes:
        if isinstance(n, A.WhitespaceToken):
            continue
        if isinstance(n, A.Comment):
            out.append(("comment", n.value))
        elif isinstance(n, A.QualifiedRule):
            sel = _ser(n.prelude).lstrip("\ufeff")
            out.append(("rule", tuple(_tok_nf(n.prelude)), tuple(_decl_list_nf(n.content, mask, sel))))
        elif isinstance(n, A.AtRule):
            if n.content is None:
                out.append(("at", n.at_keyword, tuple(_tok_nf(n.prelude)), None))
            elif n.lower_at_keyword in ("media", "supports"):
                sub = tinycss2.parse_rule_list(n.content, skip_whitespace=False, skip_comments=False)
                out.append(("at-rules", n.at_keyword, tuple(_tok_nf(n.prelude)), tuple(_rule_list_nf(sub, mask))))
            else:
                out.append(("at", n.at_keyword, tuple(_tok_nf(n.prelude)), tuple(_tok_nf(n.content))))
        elif isinstance(n, A.ParseError):
            out.append(("parse-error", n.kind))
        else:
            out.append((n.type, tinycss2.serialize([n])))
    return out


def normal_form(css_text, mask=None):
    """Normal form of a stylesheet: CDO/CDC and whitespace dropped at rule level (parse_stylesheet
    already drops CDO/CDC at top level), declarations as (name, value tokens, important).
    mask = {"rules": selectors whose `color` values are masked, "props": custom property names
    whose definitions in :root/html are masked}."""
    nodes = tinycss2.parse_stylesheet(css_text, skip_whitespace=False, skip_comments=False)
    return _rule_list_nf(nodes, mask)


def nf_diff(a, b, path=()):
    """First difference between two normal forms: (path, a_item, b_item) or None."""
    if isinstance(a, (list, tuple)) and isinstance(b, (list, tuple)):
        for i in range(max(len(a), len(b))):
            if i >= len(a):
                return (path + (i,), None, b[i])
            if i >= len(b):
                return (path + (i,), a[i], None)
            d = nf_diff(a[i], b[i], path + (i,))
            if d:
                return d
        return None
    return None if a == b else (path, a, b)


def has_parse_error(css_text):
    """True if the stylesheet, read as CSS, contains a ParseError node at any level we descend into."""

    def chk_rules(nodes):
        for n in nodes:
            if isinstance(n, A.ParseError):
                return True
            if isinstance(n, A.QualifiedRule):
                for d in tinycss2.parse_declaration_list(n.content):
                    if isinstance(d, A.ParseError):
                        return True
            elif isinstance(n, A.AtRule) and n.content is not None and n.lower_at_keyword in ("media", "supports"):
                if chk_rules(tinycss2.parse_rule_list(n.content)):
                    return True
        return False

    return chk_rules(tinycss2.parse_stylesheet(css_text))
