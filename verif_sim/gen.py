"""Workload generators: colours in every spelling, stylesheet ASTs (DESIGN 3.7, A.1).

A stylesheet is generated as a JSON-able AST which `render` turns into text, so the
minimiser can drop / simplify items and the replay file is self-contained.
"""
import colorsys

from . import refs

# ---------------------------------------------------------------------------
# colours


def _hex6(rgb, upper=False):
    s = "#%02x%02x%02x" % tuple(rgb)
    return s.upper() if upper else s


def hsl_spelling(rgb, style=0):
    h, l, s = colorsys.rgb_to_hls(rgb[0] / 255.0, rgb[1] / 255.0, rgb[2] / 255.0)
    if style == 0:
        txt = "hsl(%.4f, %.4f%%, %.4f%%)" % (h * 360.0, s * 100.0, l * 100.0)
    else:
        txt = "hsl(%.4f,%.4f%%,%.4f%%)" % (h * 360.0, s * 100.0, l * 100.0)
    # must denote exactly rgb for a conforming reader, robustly (real value within 0.02 of the integer)
    r2, g2, b2 = colorsys.hls_to_rgb((float("%.4f" % (h * 360.0)) / 360.0) % 1.0, float("%.4f" % (l * 100.0)) / 100.0, float("%.4f" % (s * 100.0)) / 100.0)
    for c, o in zip((r2, g2, b2), rgb):
        if abs(c * 255.0 - o) > 0.02:
            return None
    return txt


_NAMES_BY_RGB = {}
for _n, _v in sorted(refs.NAMED_RGB.items()):
    _NAMES_BY_RGB.setdefault(_v, []).append(_n)
NAMED_LIST = sorted(refs.NAMED_RGB)

CSS_SPELLINGS = ("hex6", "hex6u", "hex3", "name", "nameU", "rgb", "rgbtight", "rgbpct", "hsl", "RGB")
API_ONLY_SPELLINGS = ("barehex", "tuple", "list", "informal")
ALPHA_SPELLINGS = ("rgba", "hsla", "rgba_tuple", "rgb4", "rgb_slash", "bare4")
CSS_ALPHA_SPELLINGS = ("rgba", "hsla", "rgb4", "rgb_slash")
# spellings the library accepts whose exact reading is the library's own business (used where the reference is the
# same call in a pristine process, never where an independent reader has to know the colour)
EXOTIC_API_SPELLINGS = ("tuple_strs", "tuple_pct", "tuple_float", "tuple01", "paren", "rgb_space", "spaces", "padded", "barehexU",
                        "hsl_tuple", "rgba_pct", "mixedcase_fn", "list_float", "tuple_bool", "fn_gap", "fn_colon", "rgba_gap", "hsla_gap", "name_spaced")


def spell(rng, rgb, kinds=CSS_SPELLINGS):
    """A spelling of the opaque colour `rgb`, drawn from `kinds` (falls back to #rrggbb
    where the drawn kind cannot express this colour). Returns (value, kind)."""
    rgb = tuple(rgb)
    k = rng.choice(kinds)
    if k == "hex6u":
        return _hex6(rgb, True), k
    if k == "hex3" and all(c % 17 == 0 for c in rgb):
        return "#%x%x%x" % tuple(c // 17 for c in rgb), k
    if k in ("name", "nameU") and rgb in _NAMES_BY_RGB:
        n = rng.choice(_NAMES_BY_RGB[rgb])
        return (n.upper() if k == "nameU" else n), k
    if k == "rgb":
        return "rgb(%d, %d, %d)" % rgb, k
    if k == "rgbtight":
        return "rgb(%d,%d,%d)" % rgb, k
    if k == "RGB":
        return "RGB(%d, %d, %d)" % rgb, k
    if k == "rgbpct" and all(c % 51 == 0 for c in rgb):
        return "rgb(%d%%, %d%%, %d%%)" % tuple(c * 100 // 255 for c in rgb), k
    if k == "hsl":
        s = hsl_spelling(rgb, rng.randrange(2))
        if s:
            return s, k
    if k == "barehex":
        return _hex6(rgb)[1:], k
    if k == "tuple":
        return rgb, k
    if k == "list":
        return list(rgb), k
    if k == "informal":
        return "%d, %d, %d" % rgb, k
    if k == "tuple_strs":
        return tuple(str(c) for c in rgb), k
    if k == "tuple_pct":
        return tuple("%d%%" % round(c * 100 / 255) for c in rgb), k
    if k == "tuple_float":
        return tuple(float(c) + rng.choice((0.0, 0.4, 0.5)) for c in rgb), k
    if k == "list_float":
        return [float(c) for c in rgb], k
    if k == "tuple01":
        return tuple(round(c / 255.0, 3) for c in rgb), k
    if k == "tuple_bool":
        return tuple(bool(c > 127) for c in rgb), k
    if k == "paren":
        return "(%d, %d, %d)" % rgb, k
    if k == "rgb_space":
        return "rgb %d %d %d" % rgb, k
    if k == "spaces":
        return "%d %d %d" % rgb, k
    if k == "padded":
        return rng.choice(("  %s\t", "\n%s ", " %s")) % _hex6(rgb), k
    if k == "barehexU":
        return _hex6(rgb, True)[1:], k
    if k == "hsl_tuple":
        h, l, s_ = colorsys.rgb_to_hls(rgb[0] / 255.0, rgb[1] / 255.0, rgb[2] / 255.0)
        return (round(h * 360.0, 1) or 2.0, round(s_, 3), round(l, 3)), k
    if k == "rgba_pct":
        return "rgba(%d%%, %d%%, %d%%, %s)" % (round(rgb[0] * 100 / 255), round(rgb[1] * 100 / 255), round(rgb[2] * 100 / 255), rng.choice(("50%", "100%", "0.5", "1"))), k
    if k == "name_spaced":
        # CSS names written the way people say them ("dark gray", "Light-Grey"); invalid for the library today
        for pre in ("dark", "light", "medium", "pale", "deep", "hot", "lime", "sea", "sky", "slate", "spring", "steel", "royal", "midnight"):
            for n in _NAMES_BY_RGB.get(tuple(rgb), ()):
                if n.startswith(pre) and len(n) > len(pre):
                    return rng.choice(("%s %s", "%s-%s", "%s_%s", "%s  %s")) % (pre, n[len(pre):]), k
        return rng.choice(("dark gray", "light grey", "Dark Blue", "sky blue", "slate-gray")), k
    if k == "fn_gap":
        return rng.choice(("rgb (%d, %d, %d)", "RGB  (%d,%d,%d)")) % rgb, k
    if k == "fn_colon":
        return rng.choice(("rgb: (%d, %d, %d)", "rgb = (%d, %d, %d)")) % rgb, k
    if k == "rgba_gap":
        return rng.choice(("rgba (%d, %d, %d, 0.6)", "RGBA: (%d, %d, %d, 0.5)", "rgba  (%d,%d,%d,1)")) % rgb, k
    if k == "hsla_gap":
        hs = hsl_spelling(rgb)
        if hs:
            return rng.choice(("hsla (%s, 0.5)", "HSLA: (%s, 0.7)", "hsl (%s)")) % hs[4:-1], k
    if k == "mixedcase_fn":
        return rng.choice(("Rgb(%d, %d, %d)", "rGB( %d , %d , %d )")) % rgb, k
    return _hex6(rgb), "hex6"


def spell_alpha(rng, rgb, alpha, kind=None):
    """A translucent spelling (text colours only)."""
    kind = kind or rng.choice(ALPHA_SPELLINGS)
    a = ("%g" % alpha)
    if kind == "rgba":
        return "rgba(%d, %d, %d, %s)" % (rgb[0], rgb[1], rgb[2], a), kind
    if kind == "hsla":
        s = hsl_spelling(rgb)
        if s:
            return "hsla(" + s[4:-1] + ", %s)" % a, kind
        return "rgba(%d, %d, %d, %s)" % (rgb[0], rgb[1], rgb[2], a), "rgba"
    if kind == "rgb4":
        return "rgb(%d, %d, %d, %s)" % (rgb[0], rgb[1], rgb[2], a), kind
    if kind == "rgb_slash":
        return "rgb(%d %d %d / %s)" % (rgb[0], rgb[1], rgb[2], ("%g%%" % (alpha * 100)) if rng.random() < 0.5 else a), kind
    if kind == "bare4":
        return "%d, %d, %d, %s" % (rgb[0], rgb[1], rgb[2], a), kind
    return (rgb[0], rgb[1], rgb[2], alpha), "rgba_tuple"


POISON_STR = ["nope", "#12", "#12345", "rgb(300,0,0)", "rgb(1,2)", "", " ", "inherit", "currentcolor", "transparent",
              "var(--x)", "hsl(120)", "#ggg", "rgb(a,b,c)", "12", "url(x)", "rgba(1,2,3,7e9)", "rgba(0,0,0,35)", "rgba(10, 20, 30, 50)", "hsla(0, 0%, 20%, 80)",
              "[/]", "[/b]", "#[/b]", "var[/x]", "[bold]red", "{0}", "%s", "%(x)s", "\\", "red\n", "<b>", "a\x00b", "\t\n"]
# modern / unusual CSS colour syntaxes: whether the library reads them or rejects them, its answer must not depend on
# anything but the string (used only where the reference is the same call in a pristine process)
NEAR_CSS = ["hsl(120deg, 50%, 40%)", "hsl(0.5turn, 50%, 40%)", "hsl(3.4rad, 50%, 40%)", "hsl(200grad, 50%, 40%)", "hsl(120deg 50% 40%)",
            "hsla(210deg, 60%, 45%, 0.8)", "rgb(10 20 30 / 50%)", "#11223344", "#1234", "hwb(120 10% 20%)", "lab(50% 40 30)",
            "lch(50% 40 30)", "oklch(0.6 0.1 200)", "oklab(0.6 0.1 0.1)", "color(srgb 0.2 0.4 0.6)", "color-mix(in srgb, red, blue)",
            "rgb(calc(10*2), 0, 0)", "light-dark(#000, #fff)", "canvastext", "rebeccapurple", "RebeccaPurple", "rgb(50% 20% 10%)",
            "hsl(120, 50%, 40%, 0.5)", "rgba(10, 20, 30)", "rgb(10.5, 20.2, 30.9)", "rgb(1e2, 0, 0)", "hsl(-120, 50%, 40%)",
            "hsl(480, 50%, 40%)", "hsl(120, 50, 40)", "rgb(10,20,30,)", "rgb(10;20;30)", "0x112233", "112233", "#112233 ", "# 112233"]
# plain words that are not colours (a CSV heading row, a placeholder, a typo'd name): unparsable like any other poison
POISON_WORDS = ["text", "background", "color", "colour", "fg", "bg", "foreground", "name", "notacolor", "alsobad", "Text Colour",
                "bg_color", "large", "none", "default", "auto", "grey50", "lightgray2", "blu", "whit"]
# the subset that is well-formed as a CSS declaration value (used as text / background colours of generated stylesheets)
NEAR_CSS_IN_SHEETS = [x for x in NEAR_CSS if x.startswith(("hsl", "rgb(10 20", "rgb(50%", "#1", "hwb", "lab", "lch", "okl", "color", "light-dark", "canvastext", "rgb(10.5", "rgb(1e2"))]
POISON_OBJ = [None, (1, 2), (1, 2, 3, 4, 5), (300, 0, 0), (-1, 0, 0), ("a", "b", "c"), 3.5, (None, None, None), [], ()]
CSS_KEYWORDS = ["inherit", "currentcolor", "transparent", "initial", "unset", "currentColor"]


_NUM_FAMILIES = (
    [(1, 1, 1), (1.0, 1.0, 1.0), (True, True, True)],
    [(255, 0, 0), (255, 0.0, 0.0)],
    [(200, 1, 1), (200, 1.0, 1.0)],
    [(0, 1, 0), (0, 1.0, 0), (0.0, 1, 0.0)],
    [(0, 0, 1), (0, 0, 1.0), [0, 0, 1]],
    [(1, 0, 0), (1.0, 0, 0), (True, False, False)],
    [(120, 1, 0), (120, 1.0, 0.0), (120, 1.0, 0)],
)


def alias_family(rng):
    """Spellings that collide under plausible cache keys (==/hash, str(), repr(), lower(), strip()) although
    they denote different colours or call for different output formats. Used to place several members of one
    family in the same list / history / thread workload."""
    m = rng.random()
    if m < 0.35:
        return [x for x in rng.choice(_NUM_FAMILIES)]
    rgb = rand_rgb(rng)
    if m < 0.75:
        t = tuple(rgb)
        fam = [t, list(t), str(t), str(list(t)), "%d, %d, %d" % t, "rgb(%d, %d, %d)" % t, repr(t).replace(" ", "")]
    else:
        h = "%02x%02x%02x" % tuple(rgb)
        fam = ["#" + h, "#" + h.upper(), h, h.upper(), " #" + h + " ", "#" + h + "\n"]
        if tuple(rgb) in _NAMES_BY_RGB:
            n = _NAMES_BY_RGB[tuple(rgb)][0]
            fam += [n, n.upper(), n.capitalize(), " " + n]
    rng.shuffle(fam)
    return fam[: rng.randint(2, 4)]


def rand_rgb(rng):
    m = rng.random()
    if m < 0.25:
        g = rng.randrange(256)
        return (g, g, g)
    if m < 0.35:
        return rng.choice([(0, 0, 0), (255, 255, 255), (255, 0, 0), (0, 0, 255), (0, 128, 0), (255, 255, 0)])
    if m < 0.45:
        return refs.NAMED_RGB[rng.choice(NAMED_LIST)]
    if m < 0.55:
        return tuple(rng.randrange(6) * 51 for _ in range(3))
    if m < 0.65:
        return tuple(rng.randrange(16) * 17 for _ in range(3))
    return (rng.randrange(256), rng.randrange(256), rng.randrange(256))


def _blend(a, b, t):
    return tuple(int(round(x * (1 - t) + y * t)) for x, y in zip(a, b))


BANDS = ("pass", "pass-hair", "fix", "fix-hair", "mid", "hard", "same", "random")


def pick_text(rng, bg, thr, band):
    """A text colour whose reference contrast against bg falls in the wanted band
    (best effort: returns the closest found). Returns (rgb, ratio)."""
    if band == "random":
        t = rand_rgb(rng)
        return t, refs.contrast(t, bg)
    if band == "same":
        return tuple(bg), 1.0
    lo_hi = {
        "pass": (thr + 0.05, 21.0),
        "pass-hair": (thr, thr + 0.03),
        "fix": (thr * 0.8, thr - 1e-6),
        "fix-hair": (thr - 0.03, thr - 1e-9),
        "mid": (thr * 0.5, thr * 0.8),
        "hard": (1.0, thr * 0.45),
    }[band]
    best = None
    for attempt in range(24):
        end = (0, 0, 0) if refs.contrast((0, 0, 0), bg) >= refs.contrast((255, 255, 255), bg) else (255, 255, 255)
        if rng.random() < 0.25:
            end = (255, 255, 255) if end == (0, 0, 0) else (0, 0, 0)
        if rng.random() < 0.5:
            # chromatic end point
            end = _blend(end, rand_rgb(rng), rng.random() * 0.5)
        want = lo_hi[0] + rng.random() * (lo_hi[1] - lo_hi[0])
        a, b = 0.0, 1.0
        for _ in range(18):
            m = (a + b) / 2
            if refs.contrast(_blend(bg, end, m), bg) < want:
                a = m
            else:
                b = m
        for tt in (b, a, min(1.0, b + 0.004), max(0.0, a - 0.004)):
            cand = _blend(bg, end, tt)
            if band in ("pass-hair", "fix-hair") and attempt > 2:
                cand = tuple(max(0, min(255, c + rng.choice((-1, 0, 0, 1)))) for c in cand)
            r = refs.contrast(cand, bg)
            if lo_hi[0] <= r <= lo_hi[1]:
                return cand, r
            d = min(abs(r - lo_hi[0]), abs(r - lo_hi[1]))
            if best is None or d < best[0]:
                best = (d, cand, r)
    return best[1], best[2]


# ---------------------------------------------------------------------------
# stylesheet AST

ALL_FEATURES = (
    "vars", "var-fallback", "var-undefined", "var-chain", "var-shared", "root-direct-color", "root-and-html",
    "important", "repeat-decl", "prop-case", "nesting", "bg-var", "keywords", "opaque-atrules", "vendor-hacks",
    "star-hack", "non-ascii", "crlf", "bom", "cdo-cdc", "alpha-text", "comments", "no-color-rules", "odd-strings", "dup-root", "nested-root", "unicode-seps", "dup-selectors", "own-colour-elsewhere", "css-nesting", "comment-in-value", "stale-charset", "var-names", "nested-root-color", "many-rules", "one-notation", "var-cycle",
)
# features outside what the reference cascade of C08 models or what C08's statement quantifies over
C09_ONLY = ("opaque-atrules", "vendor-hacks", "star-hack", "crlf", "bom", "odd-strings", "dup-root", "unicode-seps", "dup-selectors", "css-nesting", "comment-in-value", "stale-charset", "nested-root-color")

_SEL_FORMS = (".r%d", "#id%d", "a.x%d:hover", "div > p.k%d", "[data-x=\"%d\"]", "ul li.i%d", "h%d", "p.c%d::before", "a.u%d, a.u%d:visited",
              "input[type='text'].q%d", "a+b.s%d", "li ~ li.t%d")
_SEL_FORMS_NONASCII = (".r\u00e9%d", ".\u4e2d%d", "#\u00fc%d")
_OTHER_DECLS = ("margin: 0", "font-size: 14px", "border: 1px solid #123456", "background: url(a.png)", "padding:1em 2em",
                "font-family: \"Helvetica Neue\", Arial", "line-height:1.5", "border-color: red", "outline-color: #777",
                "content: \"a;b}c\"", "display:none")
_COMMENTS = ("/* note */", "/**/", "/* color: #777; */", "/* a{b:c} */", "/*! keep */", "/*#region Typography*/", "/*#endregion*/",
             "/*# sourceMappingURL=site.css.map */", "/*@todo: dark theme*/", "/*@noflip*/", "/*# ---- Buttons ---- #*/", "/*<!-- x -->*/")
_OPAQUE_STMTS = (
    "@import url(\"x.css\");", "@import 'y.css' screen;", "@namespace svg url(http://www.w3.org/2000/svg);",
    "@layer base, components;", "@unknown-thing foo bar;", "@media print;", "@supports (display: grid);",
)
_OPAQUE_BLOCKS = (
    "@font-face { font-family: \"F\"; src: url(f.woff2) format(\"woff2\"); }",
    "@keyframes spin { from { color: #777; transform: rotate(0deg) } to { color:#888; transform: rotate(360deg) } }",
    "@page :first { margin: 1in; color: #777 }",
    "@layer base { html { color: #777 } }",
    "@unknown { a { color: #777 } }",
    "@-webkit-keyframes x { 0% { opacity: 0 } 100% { opacity: 1 } }",
    "@media print { }",
    "@font-feature-values Font One { @styleset { nice-style: 12; } }",
)
_ODD_DECLS = (
    "width: calc(1px + 2px)", "margin: -.5e3px +.5px", "unicode-range: U+0025-00FF, U+4??", "background: url( spaced.png )",
    "grid-area: 1 / 2 / 3", "--blk: { a: b; c: d }", "font: 12px/1.5 a, \"b c\"", "transform: translate( -50% , 10px )",
    "content: \"\\201C\" attr(title) \"\\201D\"", "margin: calc( (1px+2px) * 3 )",
    "background: url(data:image/png;base64,iVBOR/*x*/w0KGgo=)", "content: \"}\"", "content: '/* not a comment */'",
    "content: \"\\\"; color: red\"", "background-image: url(\"a;b{c}.png\")", "quotes: \"{\" \"}\"",
    "font-family: a\\;b", "width: calc(100% - (2 * 1px))", "grid-template-areas: \"a b\" \"c d\"",
    "content: \"\\41 \\42\"", "--empty:", "--json: { \"a\": [1, 2] }",
)
_VENDOR_DECLS = (
    "-webkit-text-fill-color: #777", "-moz-appearance: none", "_height: 1%", "filter: progid:DXImageTransform.Microsoft.gradient(startColorstr='#80000000', endColorstr='#80000000')",
    "width: 100px\\9", "zoom: 1", "-ms-filter: \"alpha(opacity=50)\"", "-webkit-tap-highlight-color: rgba(0,0,0,0)",
)
_STAR_DECLS = ("*zoom: 1", "*display: inline")
# code points that str.splitlines() / some regexes treat as line breaks but CSS does not
_USEP_DECLS = ("content: \"a\u2028b\"", "content: 'x\u2029y'", "content: \"\u0085\"", "quotes: \"\u001e\" \"\u001c\"", "font-family: \"A\u000bB\"",
               "background: url(\"a\u2028b.png\")", "--note: a\u2028b")
_USEP_COMMENTS = ("/* line\u2028sep */", "/*\u0085*/", "/* a\u2029b\u001dc */")
_USEP_SELS = (".caf\u00e9\u2028bar%d", ".u\u2029x%d")
_IMPORTANT_FORMS = (" !important", "!important", " ! important", " !IMPORTANT")


def _prop_case(rng, name, feats):
    if "prop-case" in feats and rng.random() < 0.4:
        return rng.choice((name.upper(), name.capitalize(), name[0].upper() + name[1:]))
    return name


class SheetGen:
    def __init__(self, rng, feats, settings, max_rules=8, tag=""):
        self.rng = rng
        self.feats = set(feats)
        if self.feats & {"var-names", "var-chain", "var-shared", "var-fallback"}:
            self.feats.add("vars")  # (these only mean something in a stylesheet that uses custom properties at all)
        self.settings = settings
        self.max_rules = max_rules
        self.tag = tag
        self.nsel = 0
        self.vars = []  # (name, rgb or None, value string)
        self.thr = refs.target_ratio(premium=bool(settings.get("premium")))
        dbg = settings.get("default_bg")
        self.default_bg_rgb = refs.css_rgb(dbg if dbg is not None else "white") or (255, 255, 255)
        if dbg is not None and dbg.startswith("var("):
            # --default-bg given as a custom-property reference: most sheets define it (each its own colour)
            m = refs._VAR_RE.match(dbg)
            if m and rng.random() < 0.8:
                self.default_bg_rgb = rand_rgb(rng)
                self.vars.append((m.group(1), self.default_bg_rgb, spell(rng, self.default_bg_rgb, CSS_SPELLINGS)[0]))

    # -- helpers
    def selector(self):
        self.nsel += 1
        forms = _SEL_FORMS + (_SEL_FORMS_NONASCII if "non-ascii" in self.feats else ()) + (_USEP_SELS if "unicode-seps" in self.feats else ())
        f = self.rng.choice(forms)
        n = self.nsel
        if f == "h%d":
            return "h%d.s%d%s" % (1 + n % 6, n, self.tag)
        if f.startswith("[data-x"):
            return "[data-x=\"%d%s\"]" % (n, self.tag)
        if f.count("%d") == 2:
            return f % (n, n) + self.tag
        return (f % n) + self.tag

    def literal(self, rgb):
        if "one-notation" in self.feats:
            # a stylesheet written in ONE colour notation throughout (a design system in hsl(), a generated file in rgb%):
            # whatever is special about reading and re-writing that notation is exercised by most rules of the run
            if getattr(self, "_notation", None) is None:
                self._notation = self.rng.choice(("hsl", "hsl", "hsl", "rgbpct", "rgb", "name", "hex3"))
            if self.rng.random() < 0.75:
                return spell(self.rng, rgb, (self._notation,))[0]
        return spell(self.rng, rgb, CSS_SPELLINGS)[0]

    def new_var(self, rgb, value=None):
        name = "--c%d" % len(self.vars)
        if self.rng.random() < 0.2:
            name = "--%s-%d" % (self.rng.choice(("text", "brand", "fg_x", "Main")), len(self.vars))
        if "var-names" in self.feats and self.vars and self.rng.random() < 0.5:
            # names that only differ in letter case, or where one is a prefix of the other (custom property names
            # are case-sensitive and matched exactly)
            base_name = self.rng.choice(self.vars)[0]
            cand = self.rng.choice((base_name.upper().replace("--", "--", 1) if base_name != base_name.upper() else base_name.lower(),
                                    base_name[:2] + base_name[2:].capitalize(), base_name + "-muted", base_name + "2", base_name + "_"))
            if cand not in [v[0] for v in self.vars] and cand.startswith("--"):
                name = cand
        val = value if value is not None else self.literal(rgb)
        self.vars.append((name, rgb, val))
        return name

    def imp(self):
        return self.rng.choice(_IMPORTANT_FORMS)

    # -- pieces
    def color_value(self, rgb, allow_alpha=True, bg=None):
        """Express the wanted text colour `rgb` as a declaration value (maybe through a var)."""
        r, f = self.rng, self.feats
        if "alpha-text" in f and allow_alpha and bg is not None and r.random() < 0.2:
            # translucent text: choose alpha and a source colour whose composite is near rgb (not exact; fine).
            # The very same translucent string is often reused by later rules on OTHER backgrounds.
            if getattr(self, "_alpha_reuse", None) and r.random() < 0.6:
                return self._alpha_reuse, "alpha"
            a = r.choice((0.5, 0.25, 0.75, 0.9, 0.5, 0.25, 0.0, 1.0))
            src = tuple(max(0, min(255, int(round((c - (1 - a) * b) / a)))) for c, b in zip(rgb, bg)) if a > 0 else rand_rgb(r)
            self._alpha_reuse = spell_alpha(r, src, a, r.choice(CSS_ALPHA_SPELLINGS))[0]
            return self._alpha_reuse, "alpha"
        if "vars" in f and r.random() < 0.45:
            if "var-shared" in f and self.vars and r.random() < 0.5:
                name = r.choice(self.vars)[0]
                kind = "var-shared"
            else:
                name = self.new_var(rgb)
                kind = "var"
                if "var-chain" in f and r.random() < 0.35:
                    # a chain of custom properties of any length (design-token layers): mostly 2, sometimes dozens
                    for _ in range(r.choice((1, 1, 1, 2, 3, 5, 8, 9, 12, 20, 40))):
                        name = self.new_var(rgb, "var(%s)" % name)
                    kind = "var-chain"
            if "var-fallback" in f and r.random() < 0.4:
                return "var(%s, %s)" % (name, self.literal(rand_rgb(r))), kind + "+fallback"
            return "var(%s)" % name, kind
        if "var-undefined" in f and r.random() < 0.12:
            if r.random() < 0.7:
                return "var(--undefined%d, %s)" % (r.randrange(3), self.literal(rgb)), "undefined+fallback"
            return "var(--undefined%d)" % r.randrange(3), "undefined"
        if "keywords" in f and r.random() < 0.1:
            if r.random() < 0.4:
                # a modern CSS colour syntax: whether the tool reads it or lists the rule as needing attention, what it
                # reports and writes must be consistent with the colour the value denotes
                return r.choice(NEAR_CSS_IN_SHEETS), "keyword"
            return r.choice(CSS_KEYWORDS), "keyword"
        return self.literal(rgb), "literal"

    def colour_rule(self, selector=None):
        r, f = self.rng, self.feats
        sel = selector or self.selector()
        decls = []
        # background
        bg_rgb = self.default_bg_rgb
        m = r.random()
        if m < 0.55:
            bg_rgb = rand_rgb(r)
            if "alpha-text" in f and r.random() < 0.08:
                # a translucent background-color (alpha 0 included): what shows is its blend over white
                a = r.choice((0.0, 0.0, 0.5, 0.9))
                v = spell_alpha(r, bg_rgb, a, r.choice(CSS_ALPHA_SPELLINGS))[0]
                bg_rgb = tuple(int(round(a * c + (1 - a) * 255)) for c in bg_rgb)
            elif "bg-var" in f and "vars" in f and r.random() < 0.3:
                v = "var(%s)" % self.new_var(bg_rgb)
                if "var-fallback" in f and r.random() < 0.4:
                    v = v[:-1] + ", %s)" % self.literal(rand_rgb(r))
            elif "bg-var" in f and "var-undefined" in f and r.random() < 0.15:
                v = "var(--undefined%d, %s)" % (r.randrange(3), self.literal(bg_rgb))
            else:
                v = self.literal(bg_rgb)
            bgd = {"p": _prop_case(r, "background-color", f), "v": v, "imp": ""}
        else:
            bgd = None
        band = r.choice(("pass", "pass", "pass-hair", "fix", "fix", "fix", "fix-hair", "mid", "hard", "same", "random"))
        text_rgb, _ = pick_text(r, bg_rgb, self.thr, band)
        v, kind = self.color_value(text_rgb, bg=bg_rgb)
        if "comment-in-value" in f and r.random() < 0.4:
            # an annotation inside the declaration value, between the colon and the semicolon
            v = r.choice(("%s /* muted */", "/* brand */ %s", "%s/*x*/")) % v
            kind = kind + "+comment"
        cd = {"p": _prop_case(r, "color", f), "v": v, "imp": ""}
        extra = []
        if "repeat-decl" in f and r.random() < 0.3:
            other, _ = pick_text(r, bg_rgb, self.thr, r.choice(("pass", "fix", "hard")))
            extra.append({"p": _prop_case(r, "color", f), "v": self.literal(other), "imp": ""})
        if "important" in f and r.random() < 0.4:
            tgt = r.choice([cd] + extra)
            tgt["imp"] = self.imp()
            if extra and r.random() < 0.4:  # several !important declarations of the same property: the last one wins
                for x in [cd] + extra:
                    x["imp"] = self.imp()
            if bgd and r.random() < 0.3:
                bgd["imp"] = self.imp()
        cds = [cd] + extra
        r.shuffle(cds)
        if bgd and "repeat-decl" in f and r.random() < 0.25:
            other_bg = {"p": "background-color", "v": self.literal(rand_rgb(r)), "imp": ""}
            if "important" in f and r.random() < 0.5:
                other_bg["imp"] = self.imp()
                if r.random() < 0.6:
                    bgd["imp"] = self.imp()
            decls.append(other_bg)
        parts = cds + ([bgd] if bgd else [])
        r.shuffle(parts)
        decls += parts
        if "own-colour-elsewhere" in f and not v.startswith("var("):
            # the rule's own text colour spelling also occurs elsewhere in the block (border, outline, a comment)
            for _ in range(r.randint(1, 2)):
                other = r.choice(({"rawdecl": "border: 1px solid %s" % v}, {"rawdecl": "outline-color: %s" % v}, {"raw": "/* was %s */" % v},
                                  {"rawdecl": "box-shadow: 0 0 2px %s" % v}, {"rawdecl": "--accent-copy: %s" % v}))
                decls.insert(r.randrange(len(decls) + 1), other)
        if "css-nesting" in f and r.random() < 0.5:
            # CSS nesting: a conditional group rule (or a nested style rule) inside the style rule's block
            nested = r.choice(("@media (min-width: 600px) { color: #767676; margin: 0 }", "@supports (display: grid) { display: grid }",
                               "@media print { color: black }"))
            decls.insert(r.choice((len(decls), r.randrange(len(decls) + 1))), {"raw": nested})
        self.decorate(decls)
        return {"t": "rule", "sel": sel, "decls": decls, "band": band, "ckind": kind}

    def decorate(self, decls):
        """Sprinkle unrelated declarations / comments / hacks between the given ones."""
        r, f = self.rng, self.feats
        n = r.choice((0, 0, 1, 1, 2, 3))
        for _ in range(n):
            m = r.random()
            if "unicode-seps" in f and r.random() < 0.35:
                d = {"raw": r.choice(_USEP_COMMENTS)} if r.random() < 0.35 else {"rawdecl": r.choice(_USEP_DECLS)}
            elif "comments" in f and m < 0.25:
                d = {"raw": r.choice(_COMMENTS)}
            elif "odd-strings" in f and m < 0.45:
                d = {"rawdecl": r.choice(_ODD_DECLS)}
            elif "vendor-hacks" in f and m < 0.65:
                d = {"rawdecl": r.choice(_VENDOR_DECLS)}
            elif "star-hack" in f and m < 0.75:
                d = {"rawdecl": r.choice(_STAR_DECLS)}
            else:
                d = {"rawdecl": r.choice(_OTHER_DECLS)}
            decls.insert(r.randrange(len(decls) + 1), d)

    def plain_rule(self):
        r = self.rng
        decls = []
        if r.random() < 0.5:
            decls.append({"p": "background-color", "v": self.literal(rand_rgb(r)), "imp": ""})
        self.decorate(decls)
        if not decls and r.random() < 0.5:
            decls.append({"rawdecl": r.choice(_OTHER_DECLS)})
        return {"t": "rule", "sel": self.selector(), "decls": decls}

    def wrap(self, items):
        """Nest some rules into @media/@supports to depth <= 3."""
        r = self.rng
        if "nesting" not in self.feats:
            return items
        out = []
        for it in items:
            if it["t"] == "rule" and it["sel"] not in (":root", "html") and r.random() < 0.35:
                depth = r.choice((1, 1, 2, 3))
                node = it
                for _ in range(depth):
                    if r.random() < 0.6:
                        node = {"t": "at", "name": r.choice(("media", "media", "MEDIA")), "prelude": r.choice(("screen", "(min-width: 600px)", "print and (max-width:20em)", "(prefers-color-scheme: dark)")), "items": [node]}
                    else:
                        node = {"t": "at", "name": r.choice(("supports", "supports", "Supports")), "prelude": r.choice(("(display: grid)", "not (display:flex)", "(color: red) and (margin: 0)")), "items": [node]}
                    if r.random() < 0.3:
                        node["items"].insert(r.randrange(2), {"t": "raw", "text": r.choice(_COMMENTS)} if "comments" in self.feats else self.plain_rule())
                out.append(node)
            else:
                out.append(it)
        # merge two adjacent wrapped items sometimes
        return out

    def build(self):
        r, f = self.rng, self.feats
        n = r.randint(1, self.max_rules)
        if "many-rules" in f:
            n = r.randint(25, 60)  # a big stylesheet (volume-dependent behaviour: indices >= 10, caches, batching)
        items = []
        for _ in range(n):
            if "no-color-rules" in f and r.random() < 0.2:
                items.append(self.plain_rule())
            else:
                items.append(self.colour_rule())
        if "var-cycle" in f:
            # custom properties that refer to each other in a circle - through their values or only through their var()
            # FALLBACKS (theme hooks left undefined): invalid at computed-value time, never a reason to lose the file
            form = r.choice(("values", "self", "fallbacks", "fallback-self"))
            k = len(self.vars)
            a, b = "--cyc%da" % k, "--cyc%db" % k
            if form == "values":
                self.vars += [(a, None, "var(%s)" % b), (b, None, "var(%s)" % a)]
            elif form == "self":
                self.vars += [(a, None, "var(%s)" % a)]
            elif form == "fallbacks":
                self.vars += [(a, None, "var(--hook%da, var(%s))" % (k, b)), (b, None, "var(--hook%db, var(%s))" % (k, a))]
            else:
                self.vars += [(a, None, "var(--hook%d, var(%s))" % (k, a))]
            use = r.choice(("var(%s)" % a, "var(%s)" % a, "var(%s, %s)" % (a, self.literal(rand_rgb(r)))))
            items.insert(r.randrange(len(items) + 1), {"t": "rule", "sel": self.selector(), "decls": [
                {"p": r.choice(("color", "color", "background-color")), "v": use, "imp": ""}, {"rawdecl": "margin: 0"}]})
        # variable blocks
        blocks = []
        if self.vars or "root-direct-color" in f or "dup-root" in f:
            names = [":root"]
            if "dup-root" in f:
                # the same selector more than once (palette tokens in one block, layout tokens in another)
                names = r.choice(([":root", ":root"], ["html", "html"], [":root", "html", ":root"]))
            elif "root-and-html" in f:
                names = r.choice(([":root", "html"], ["html", ":root"], ["html"]))
            blocks = [{"t": "rule", "sel": s, "decls": []} for s in names]
            if "root-direct-color" in f:
                for b in blocks:
                    if r.random() < 0.7:
                        tmp = self.colour_rule(selector=b["sel"])
                        b["decls"] += tmp["decls"]
                        b["band"], b["ckind"] = tmp["band"], tmp["ckind"]
            for (name, rgb, val) in list(self.vars):
                b = r.choice(blocks)
                d = {"p": name, "v": val, "imp": ""}
                b["decls"].insert(r.randrange(len(b["decls"]) + 1), d)
                if "root-and-html" in f and len(blocks) > 1 and r.random() < 0.5:
                    # a competing definition elsewhere
                    ob = r.choice([x for x in blocks if x is not b] or blocks)
                    od = {"p": name, "v": self.literal(rand_rgb(r)), "imp": ""}
                    ob["decls"].insert(r.randrange(len(ob["decls"]) + 1), od)
                    if "important" in f and r.random() < 0.4:
                        r.choice((d, od))["imp"] = self.imp()
                elif "repeat-decl" in f and r.random() < 0.15:
                    b["decls"].insert(b["decls"].index(d), {"p": name, "v": self.literal(rand_rgb(r)), "imp": ""})
            if "dup-root" in f:
                for b in blocks:
                    for _ in range(r.randint(1, 2)):
                        b["decls"].insert(r.randrange(len(b["decls"]) + 1), {"p": "--%s%d" % (r.choice(("gap", "radius", "font", "ink")), r.randrange(9)),
                                                                              "v": r.choice(("4px", "1rem", "\"Inter\", sans-serif", "#123456")), "imp": ""})
                    if "comments" in f and r.random() < 0.5:
                        b["decls"].insert(r.randrange(len(b["decls"]) + 1), {"raw": r.choice(_COMMENTS)})
            for b in blocks:
                self.decorate(b["decls"])
        if "dup-selectors" in f and items:
            # the same selector on several rules (very common in real stylesheets)
            for _ in range(r.randint(1, 2)):
                src = r.choice([it for it in items if it["t"] == "rule"] or [None])
                if src is not None:
                    dup = self.colour_rule(selector=src["sel"]) if r.random() < 0.7 else self.plain_rule()
                    dup["sel"] = src["sel"]
                    items.insert(r.randrange(len(items) + 1), dup)
        items = self.wrap(items)
        if "nested-root" in f:
            # a :root / html rule inside @media (conditional tokens, e.g. a dark theme): not a top-level block
            inner = {"t": "rule", "sel": r.choice((":root", "html")), "decls": [
                {"p": "--c0", "v": self.literal(rand_rgb(r)), "imp": ""}, {"p": "--theme%d" % r.randrange(5), "v": self.literal(rand_rgb(r)), "imp": ""}]}
            if "nested-root-color" in f and r.random() < 0.5:
                inner["decls"].append({"p": "color", "v": self.literal(rand_rgb(r)), "imp": ""})
            if r.random() < 0.6:
                # a rule in the same conditional block that reads a token defined only there
                inner["decls"].append({"p": "--cond-only", "v": self.literal(rand_rgb(r)), "imp": ""})
                user = {"t": "rule", "sel": self.selector(), "decls": [{"p": "color", "v": r.choice(("var(--cond-only)", "var(--cond-only, %s)" % self.literal(rand_rgb(r)), "var(--theme0)")), "imp": ""}]}
                items.insert(r.randrange(len(items) + 1), {"t": "at", "name": "media", "prelude": "(prefers-color-scheme: dark)", "items": [inner, user]})
                inner = None
            if inner is not None:
                items.insert(r.randrange(len(items) + 1), {"t": "at", "name": "media", "prelude": "(prefers-color-scheme: dark)", "items": [inner]})
        for b in blocks:
            pos = r.choice((0, 0, len(items), r.randrange(len(items) + 1)))
            items.insert(pos, b)
        # opaque material
        extra = []
        if "comments" in f:
            extra += [{"t": "raw", "text": r.choice(_COMMENTS)} for _ in range(r.randrange(3))]
        if "unicode-seps" in f:
            extra += [{"t": "raw", "text": r.choice(_USEP_COMMENTS)} for _ in range(r.randrange(2))]
        if "opaque-atrules" in f:
            extra += [{"t": "raw", "text": r.choice(_OPAQUE_BLOCKS)} for _ in range(r.randrange(3))]
            extra += [{"t": "raw", "text": r.choice(_OPAQUE_STMTS), "top": True} for _ in range(r.randrange(2))]
        if "cdo-cdc" in f:
            extra += [{"t": "raw", "text": "<!--"}, {"t": "raw", "text": "-->"}]
        for e in extra:
            if e.pop("top", False):
                items.insert(0, e)
            else:
                items.insert(r.randrange(len(items) + 1), e)
        sheet = {"items": items, "style": r.choice(("pretty", "compact", "loose")), "crlf": ("crlf" in f and r.random() < 0.7) and r.choice((True, True, "mixed", "mixed", "cr")),
                 "bom": "bom" in f and r.random() < 0.7,
                 "charset": (r.choice(("windows-1252", "iso-8859-1", "latin1", "UTF-8")) if "stale-charset" in f else ("opaque-atrules" in f and r.random() < 0.3)),
                 "final_nl": r.random() < 0.8}
        return sheet


def gen_sheet(rng, feats, settings, max_rules=8, tag=""):
    return SheetGen(rng, feats, settings, max_rules=max_rules, tag=tag).build()


def draw_features(rng, pool, p=0.45):
    return sorted(x for x in pool if rng.random() < p)


# ---------------------------------------------------------------------------
# rendering


def _render_decl(d, style):
    if "raw" in d:
        return d["raw"], False
    if "rawdecl" in d:
        return d["rawdecl"], True
    sep = ": " if style != "compact" else ":"
    return d["p"] + sep + d["v"] + d.get("imp", ""), True


def _render_items(items, style, indent):
    out = []
    pad = "  " * indent if style != "compact" else ""
    nl = "\n" if style != "compact" else ""
    for it in items:
        if it["t"] == "raw":
            out.append(pad + it["text"] + nl)
        elif it["t"] == "rule":
            body = []
            ds = it["decls"]
            for i, d in enumerate(ds):
                txt, is_decl = _render_decl(d, style)
                last = i == len(ds) - 1
                semi = ";" if is_decl and (not last or style != "compact" or it.get("trailing_semi")) else ""
                if style == "loose" and is_decl and not last:
                    semi = " ;"
                body.append((pad + "  " if style != "compact" else "") + txt + semi + nl)
            sp = " " if style != "compact" else ""
            out.append(pad + it["sel"] + sp + "{" + nl + "".join(body) + pad + "}" + nl)
        elif it["t"] == "at":
            sp = " " if style != "compact" else ""
            out.append(pad + "@" + it["name"] + " " + it["prelude"] + sp + "{" + nl + _render_items(it["items"], style, indent + 1) + pad + "}" + nl)
        else:
            raise ValueError(it["t"])
    return "".join(out)


def render(sheet):
    txt = _render_items(sheet["items"], sheet.get("style", "pretty"), 0)
    if sheet.get("charset"):
        txt = "@charset \"%s\";\n" % (sheet["charset"] if isinstance(sheet["charset"], str) else "utf-8") + txt
    if not sheet.get("final_nl", True):
        txt = txt.rstrip("\n")
    if sheet.get("crlf") == "mixed":
        # a file edited on two platforms: some lines end in CRLF, some in LF
        parts = txt.split("\n")
        txt = "".join(p + ("\r\n" if k % 2 == 0 else "\n") for k, p in enumerate(parts[:-1])) + parts[-1]
    elif sheet.get("crlf") == "cr":
        txt = txt.replace("\n", "\r")
    elif sheet.get("crlf"):
        txt = txt.replace("\n", "\r\n")
    if sheet.get("bom"):
        txt = "\ufeff" + txt
    return txt


def sheet_rules(sheet):
    """All rule items of an AST (any depth), in document order."""
    out = []

    def walk(items):
        for it in items:
            if it["t"] == "rule":
                out.append(it)
            elif it["t"] == "at":
                walk(it["items"])

    walk(sheet["items"])
    return out
