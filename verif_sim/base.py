"""Seeds, digests, forked execution, sandbox directories.

Everything a run decides is derived from (property, VERIF_SEED, run index) through
SHA-256 / string-seeded random.Random streams (string seeding goes through SHA-512,
so it is independent of PYTHONHASHSEED and of the process).
"""
import faulthandler
import hashlib
import json
import os
import pickle
import random
import select
import shutil
import signal
import sys
import tempfile
import time
import traceback

REPO_SRC = os.environ.get("VERIF_REPO_SRC", "/repo/src")
VERIF_DIR = os.path.dirname(os.path.dirname(os.path.abspath(__file__)))


class HarnessError(Exception):
    """Something is wrong with the machinery (never a verdict about cm-colors)."""


def run_seed(prop, verif_seed, idx):
    h = hashlib.sha256(f"{prop}|{verif_seed}|{idx}".encode()).hexdigest()
    return int(h[:16], 16)


def stream(rseed, name):
    return random.Random(f"{rseed}|{name}")


def canon(obj):
    """Canonical JSON text (insertion order is NOT relied on: keys sorted)."""
    return json.dumps(obj, sort_keys=True, ensure_ascii=True, default=_default)


def _default(o):
    if isinstance(o, (bytes, bytearray)):
        return {"__bytes__": bytes(o).hex()}
    if isinstance(o, tuple):
        return list(o)
    if isinstance(o, (set, frozenset)):
        return sorted(canon(x) for x in o)
    return repr(o)


def digest(obj):
    return hashlib.sha256(canon(obj).encode()).hexdigest()[:24]


def hkey(key, name):
    """Deterministic rank of `name` under integer/str `key` (used for traversal orders)."""
    return hashlib.sha256(f"{key}|{name}".encode()).hexdigest()


# ---------------------------------------------------------------------------
# forked execution


class ForkTimeout(HarnessError):
    pass


class ForkDied(HarnessError):
    pass


def in_fork(fn, *args, timeout=60.0, **kw):
    """Run fn(*args, **kw) in a forked child; return its (picklable) result.

    The child inherits the whole interpreter state of the caller (copy-on-write) and
    cannot change it: this is how "the same code under the empty history" oracles and
    per-run isolation are obtained.  Exceptions in the child come back as
    HarnessError (the functions run here catch what belongs to cm-colors themselves).
    """
    r, w = os.pipe()
    for st in (sys.stdout, sys.stderr):
        try:
            st.flush()
        except Exception:
            pass
    pid = os.fork()
    if pid == 0:
        code = 0
        try:
            os.close(r)
            try:
                faulthandler.cancel_dump_traceback_later()
            except Exception:
                pass
            try:
                res = ("ok", fn(*args, **kw))
            except BaseException as e:  # noqa
                res = ("exc", "".join(traceback.format_exception(type(e), e, e.__traceback__)))
            data = pickle.dumps(res, protocol=4)
            with os.fdopen(w, "wb") as f:
                f.write(data)
        except BaseException:
            code = 3
        finally:
            os._exit(code)
    os.close(w)
    chunks = []
    deadline = time.monotonic() + timeout
    try:
        while True:
            left = deadline - time.monotonic()
            if left <= 0:
                _kill(pid)
                raise ForkTimeout(f"forked task {getattr(fn, '__name__', fn)} exceeded {timeout}s")
            rl, _, _ = select.select([r], [], [], min(left, 1.0))
            if rl:
                b = os.read(r, 1 << 20)
                if not b:
                    break
                chunks.append(b)
    finally:
        os.close(r)
    _, status = os.waitpid(pid, 0)
    data = b"".join(chunks)
    if not data:
        raise ForkDied(f"forked task died without a result (status {status})")
    kind, val = pickle.loads(data)
    if kind == "exc":
        raise HarnessError("exception in forked task:\n" + val)
    return val


def _kill(pid):
    try:
        os.kill(pid, signal.SIGKILL)
    except ProcessLookupError:
        pass
    try:
        os.waitpid(pid, 0)
    except ChildProcessError:
        pass


# ---------------------------------------------------------------------------
# sandbox directories

_SBX_BASE = None


def sandbox_base():
    global _SBX_BASE
    if _SBX_BASE is None:
        top = "/dev/shm" if os.path.isdir("/dev/shm") and os.access("/dev/shm", os.W_OK) else tempfile.gettempdir()
        _SBX_BASE = os.path.join(top, f"cmverif-{os.getpid()}")
    return _SBX_BASE


def set_sandbox_base(path):
    global _SBX_BASE
    _SBX_BASE = path


_counter = [0]


def new_sandbox(tag="run"):
    """Create <base>/<pid>-<n>-<tag>/ and return its real path."""
    _counter[0] += 1
    d = os.path.join(sandbox_base(), f"{os.getpid()}-{_counter[0]}-{tag}")
    os.makedirs(d)
    return os.path.realpath(d)


def rm_tree(path):
    shutil.rmtree(path, ignore_errors=True)


def check_repo_import():
    import cm_colors

    f = os.path.realpath(cm_colors.__file__)
    if not f.startswith(os.path.realpath(REPO_SRC) + os.sep):
        raise HarnessError(f"cm_colors imported from {f}, expected under {REPO_SRC}")
    return f
