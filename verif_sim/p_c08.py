"""C08 - CLI: what is reported is what was written; every rule accounted for.

One generated stylesheet per run; the three outputs of one invocation (stdout summary, HTML
report, written <name>_cm.css) must tell the same story, and that story must agree with the
reference cascade applied to the WRITTEN file, the WCAG reference, and the Python API in a
pristine process (DESIGN 4, C08).
"""
import copy
import os

import tinycss2

from . import base, cli_run, gen, refs, report, seams
from .base import stream
from .p_c18 import shrink_sheet

ID = "C08"
LEVEL = "exploration"
BUDGET = {"quick": 45.0, "thorough": 900.0}
CHUNK = 4
RUN_TIMEOUT = 240.0
SELFTEST_RUNS = 2
RULE = ("one run = one generated stylesheet (1-8 colour rules with unique selectors; literal colours in every CSS spelling, custom properties "
        "in :root/html chained / shared / with fallbacks / undefined, !important, repeated declarations, property-name case, nesting in "
        "@media/@supports to depth 3, colours declared in :root/html, translucent text, keywords, comments) x --mode x --premium x "
        "--default-bg x file/directory invocation x cwd; fault-free. Non-trivial = at least one rule adjusted or needing attention; "
        "distinct = distinct event-log digest (stdout, report cards, written bytes).")
ASSUMPTIONS = [
    "tinycss2 tokenisation of input and output is trusted; the reference cascade models exactly the CSS the generator emits",
    "ref_wcag (written from the WCAG 2 text) and tinycss2.color3 (+rebeccapurple) are the colour/contrast references",
    "pairs whose reference ratio is within 1e-9 of the target are not judged (counted as skipped_boundary)",
    "the Python-API reference for a reported pair is the same library called in a pristine forked process",
]
PROBES = ["rules_total", "cat_accessible", "cat_tuned", "cat_failed", "all_three_in_one_run", "tuned_via_variable", "tuned_literal",
          "nested_depth_3", "nested_rule_tuned", "premium_runs", "default_bg_runs", "shared_var_sheet", "root_direct_color",
          "fallback_used", "important_present", "prop_case_present", "alpha_text_tuned", "api_calls", "dir_invocation",
          "mode0", "mode1", "mode2", "report_present", "subprocess_crosscheck", "multi_file_runs", "inplace_model_evaluated", "inplace_model_matched", "real_interpreter_runs", "non_utf8_locale_runs", "second_invocation_in_process_runs", "invoked_from_non_main_thread", "directory_named_like_a_stylesheet", "long_var_chain", "already_processed_with_other_settings", "longer_stale_output_present"]

# (unicode-seps: U+2028, U+0085, VT ... inside strings, comments and selectors are ordinary characters to a CSS tokenizer -
# and to the reference reader, which is tinycss2 - so the count law and the written colours are judged there as well)
C08_FEATURES = tuple(f for f in gen.ALL_FEATURES if f not in gen.C09_ONLY or f == "unicode-seps")


def _settings(rng):
    s = {"mode": rng.choice((1, 1, 1, 0, 0, 2, 2, None))}
    if rng.random() < 0.35:
        s["premium"] = True
    if rng.random() < 0.4:
        s["default_bg"] = rng.choice(("black", "#222", "rgb(250, 250, 240)", "#FFFFFF", "navy", "hsl(0, 0%, 20%)", "#eee", "gray", "var(--page-bg)", "var(--page-bg, #fafafa)", "notacolor", "WHITE", "#FFF"))
    return s


def generate(rseed, tier, idx):
    g = stream(rseed, "gen")
    e = stream(rseed, "env")
    settings = _settings(g)
    feats = gen.draw_features(g, [f for f in C08_FEATURES if f != "many-rules"], g.choice((0.15, 0.3, 0.5)))
    if g.random() < 0.02:
        feats.append("many-rules")
    ast = gen.gen_sheet(g, feats, settings, max_rules=8)
    if g.random() < 0.03:  # nothing to do at all: empty or comment-only stylesheet
        ast = {"items": [{"t": "raw", "text": "/* nothing here */"}] if g.random() < 0.5 else [], "style": "pretty"}
    env = {"cwd": e.choice(("cwd", "cwd", "tree")), "tty": e.random() < 0.3, "argform": e.choice(("abs", "abs", "rel")),
           "inv": e.choice(("file", "file", "dir")), "name": e.choice(("a.css", "style.css", "my style.css", "thème.css", "a.css", "normalize.css/normalize.css", "site.css.d/main.css", "cafe\u0301.css"))}
    env["in_thread"] = e.random() < 0.08  # the command called from a worker thread of a larger program
    # a longer <name>_cm.css is already there (the stylesheet used to be longer: its old self twice over, untuned)
    env["stale_out"] = e.random() < 0.1
    tr = {"prop": ID, "ast": ast, "feats": feats, "settings": settings, "env": env, "subproc": idx % 16 == 3}
    if g.random() < 0.2:
        # the judged invocation is the SECOND one in its process (a wrapper script, a test harness, a watch loop):
        # an earlier invocation over another stylesheet, with its own fixes and failures, ran just before it
        wf = gen.draw_features(g, C08_FEATURES, 0.3)
        tr["warmup"] = {"ast": gen.gen_sheet(g, wf, settings, max_rules=4, tag="W"), "settings": _settings(g)}
    if g.random() < 0.15 and not tr.get("warmup"):
        # the same tree was already processed once with OTHER settings (another --default-bg, mode or strictness): its outputs
        # and report are still there when the judged invocation runs (each invocation is its own process)
        ps = _settings(g)
        if ps == settings:
            ps = dict(settings, default_bg=g.choice(("black", "#222", "navy")) if not settings.get("default_bg") else None)
        tr["prior"] = {k: v for k, v in ps.items() if v is not None or k == "mode"}
    if idx % 12 == 7:
        # executed by a real interpreter under a non-UTF-8 locale (or, as a control, a UTF-8 one)
        env["real"] = e.choice(("C", "C", "utf8"))
        if env["real"] == "C":
            # under an ASCII locale Python decodes non-ASCII FILE NAMES with surrogateescape, which no UTF-8 report can
            # hold: that is the interpreter's limitation, not something C08 quantifies over. Contents stay non-ASCII.
            env["name"] = e.choice(("a.css", "style.css", "my style.css", "normalize.css/normalize.css"))
    if g.random() < 0.2:
        # a directory of two stylesheets: custom properties defined in one, referenced (without definition) in the other
        f2 = gen.draw_features(g, C08_FEATURES, 0.3)
        ast2 = gen.gen_sheet(g, f2, settings, max_rules=4, tag="F2")
        names = g.sample(("a.css", "sub/b.css", "zz.css", "th\u00e8me.css", "vendor.css/b2.css"), 2)
        if g.random() < 0.25 and "root-direct-color" not in feats and "root-direct-color" not in f2:
            names = ["a.css", "sub/a.css"]  # the same base name in two directories (the report names files by base name)
        definer, user = (ast, ast2) if g.random() < 0.5 else (ast2, ast)
        definer["items"].insert(g.randrange(len(definer["items"]) + 1), {"t": "rule", "sel": g.choice((":root", "html")), "decls": [
            {"p": "--x-shared", "v": gen.spell(g, gen.rand_rgb(g))[0], "imp": ""}, {"p": "--undefined0", "v": gen.spell(g, gen.rand_rgb(g))[0], "imp": ""}]})
        user["items"].append({"t": "rule", "sel": ".xref%dU" % g.randrange(100), "decls": [
            {"p": "color", "v": g.choice(("var(--x-shared)", "var(--x-shared, #777)", "var(--undefined0, #767676)", "var(--undefined0)")), "imp": ""}]})
        tr["sheets"] = [{"name": names[0], "ast": ast}, {"name": names[1], "ast": ast2}]
        tr["order_key"] = e.randrange(1 << 30)
        tr["env"]["inv"] = "dir"
    return tr


# ---------------------------------------------------------------------------


def _api(before, bg, mode, premium):
    """Executed in a pristine fork: what the Python API returns for the same pair and settings."""
    from cm_colors import ColorPair

    try:
        kw = {"very_readable": bool(premium)}
        if mode is not None:
            kw["mode"] = mode
        r = ColorPair(before, bg).make_readable(**kw)
        return ("ok", r)
    except Exception as ex:  # noqa
        return ("exc", repr(ex))


def rule_features(ri, infos, defs, props):
    """Features of an input rule used by known-finding predicates (computed by the reference reader)."""
    f = {}
    cv = ri.color_value or ""
    m = refs._VAR_RE.match(cv.strip()) if "var(" in cv.lower() else None
    if m:
        name, fb = m.group(1), m.group(2)
        defined = name in props
        f["ckind"] = ("var" if defined else "undefined") + ("+fallback" if fb is not None else "")
    elif "var(" in cv.lower():
        f["ckind"] = "var-other"
    else:
        f["ckind"] = "literal" if refs.css_rgba(cv) is not None else "keyword-or-invalid"
    f["selector_is_root"] = bool(ri.is_root)
    # is any custom property this rule reads (text or background) read in another slot too
    # (another rule's text/background, or this rule's other slot)?
    mine = set(ri.var_refs)
    shared = bool(set(ri.text_refs) & set(ri.bg_refs))
    for o in infos:
        if o is not ri and o.color_decls and mine & set(o.var_refs):
            shared = True
    f["shared_var"] = shared
    cds = ri.color_decls
    f["color_winner_not_last"] = bool(cds) and any(c[2] for c in cds) and not cds[-1][2]
    bds = ri.bg_decls
    f["bg_winner_not_last"] = bool(bds) and any(c[2] for c in bds) and not bds[-1][2]
    f["prop_case"] = any(c[0] != "color" for c in cds) or any(c[0] != "background-color" for c in bds)
    # custom property whose cascade winner is not the definition the tool keeps (last in source order)
    vm = False
    for n in mine:
        d = defs.get(n, [])
        if len(d) > 1:
            vm = True
    f["var_multi_def"] = vm
    a = refs.css_rgba(ri.eff_text) if ri.eff_text else None
    f["alpha_text"] = bool(a and a[3] < 1.0)
    f["n_color_decls"] = len(cds)
    f["nested"] = ri.depth > 0
    return f


# ---------------------------------------------------------------------------
# executable model of the tool's AS-IS handling of custom properties (sequential, in place).
# It is NOT an oracle for the property: it is the precise description of known finding F5. A violation
# on a rule that shares a custom property is attributed to F5 only if the whole run behaves exactly as
# this model predicts; any other behaviour on such rules is reported as an unknown violation.

import re as _re

_TOOL_VAR_RE = _re.compile(r"var\((--[\w-]+)(?:\s*,\s*(.*))?\)")
_TOOL_NAME_RE = _re.compile(r"var\(\s*(--[\w-]+)\s*(?:,.*)?\)", _re.DOTALL)


def _tool_resolve(value, table, visited=None):
    if visited is None:
        visited = set()
    if not value or "var(" not in value:
        return value
    m = _TOOL_VAR_RE.search(value)
    if not m:
        return value
    name, fb = m.group(1), m.group(2)
    if name in visited:
        return fb
    visited.add(name)
    if name in table:
        r = _tool_resolve(table[name]["value"], table, visited)
        if r:
            return r
    if fb:
        return _tool_resolve(fb, table, visited)
    return None


def _classify(text_str, bg_str, mode, premium):
    """In a pristine fork: how the library classifies one pair (the CLI's three-way decision)."""
    from cm_colors import ColorPair
    from cm_colors.core.contrast import calculate_contrast_ratio

    try:
        p = ColorPair(text_str, bg_str)
        if not p.is_valid:
            return ("failed",)
        if calculate_contrast_ratio(p.text.rgb, p.bg.rgb) >= (7.0 if premium else 4.5):
            return ("accessible",)
        kw = {"very_readable": bool(premium)}
        if mode is not None:
            kw["mode"] = mode
        col, ok = p.make_readable(**kw)
        return ("tuned", col) if ok else ("failed",)
    except Exception:
        return ("failed",)


def inplace_model(sheets, settings, cache):
    """-> {"cards": {(file, sel): (before, bg, after)}, "failed": set, "rule_values": {(file, sel): str}, "var_values": {(file, name): str}}"""
    dbg = settings.get("default_bg") or "white"
    pred = {"cards": {}, "failed": set(), "rule_values": {}, "var_values": {}}
    for fname, text in sheets:
        bname = fname.rsplit("/", 1)[-1]
        nodes = tinycss2.parse_stylesheet(text, skip_whitespace=True, skip_comments=True)
        table = {}
        for rule in nodes:
            if isinstance(rule, tinycss2.ast.QualifiedRule):
                sel = refs._ser(rule.prelude)
                if sel in (":root", "html"):
                    for d in refs._decls(rule.content):
                        if d.name.startswith("--"):
                            rank = (bool(d.important), sel == ":root")
                            prev = table.get(d.name)
                            if prev and prev["rank"] > rank:
                                continue
                            table[d.name] = {"value": refs._ser(d.value), "rank": rank}
        infos, _props = refs.analyse(text, dbg)
        for ri in infos:
            if not ri.color_decls:
                continue
            raw_text = ri.color_value
            raw_bg = ri.bg_value if ri.bg_value is not None else dbg
            text_str = _tool_resolve(raw_text, table) or raw_text
            bg_str = _tool_resolve(raw_bg, table) or raw_bg
            key = (text_str, bg_str)
            if key not in cache:
                cache[key] = base.in_fork(_classify, text_str, bg_str, settings.get("mode"), bool(settings.get("premium")), timeout=120)
            cls = cache[key]
            k = (bname, ri.selector)
            fk = (fname, ri.selector)
            pred["rule_values"][fk] = raw_text
            if cls[0] == "failed":
                pred["failed"].add(k)
            elif cls[0] == "tuned":
                tuned = cls[1]
                pred["cards"][k] = (text_str, bg_str, tuned)
                m = _TOOL_NAME_RE.search(raw_text) if "var(" in raw_text else None
                if m and m.group(1) in table:
                    table[m.group(1)]["value"] = tuned
                else:
                    pred["rule_values"][fk] = tuned
        for n, v in table.items():
            pred["var_values"][(fname, n)] = v["value"]
    return pred


def inplace_model_matches(sheets, settings, cards, fail_keys, out_texts, cache):
    """True iff the run's report, failure list and written files are exactly what the in-place model predicts."""
    dbg = settings.get("default_bg") or "white"
    try:
        pred = inplace_model(sheets, settings, cache)
    except base.HarnessError:
        return False
    got_cards = {(c["file"], c["selector"]): (c["before"], c["bg"], c["after"]) for c in cards}
    if got_cards != pred["cards"] or set(fail_keys) != pred["failed"]:
        return False
    for fname, _t in sheets:
        bname = fname.rsplit("/", 1)[-1]
        oinfos, oprops = refs.analyse(out_texts[fname], dbg)
        for ri in oinfos:
            if ri.color_decls:
                want = pred["rule_values"].get((fname, ri.selector))
                if want is None or refs._ser(tinycss2.parse_component_value_list(want)) != ri.color_value:
                    return False
        for (b, n), v in pred["var_values"].items():
            if b == fname and oprops.get(n) != refs._ser(tinycss2.parse_component_value_list(v)):
                return False
    return True


def _best_ratio(text, bg, alpha_text, alpha_bg=False):
    """Reference contrast; for a translucent text or background the composite is only defined to within 1.5 units
    (C13: the library truncates where the reference rounds), so the most favourable colour within +-2 units per channel
    is judged."""
    texts = [text] + ([tuple(max(0, min(255, c + d)) for c in text) for d in (-2, 2)] if alpha_text else [])
    bgs = [bg] + ([tuple(max(0, min(255, c + d)) for c in bg) for d in (-2, 2)] if alpha_bg else [])
    return max(refs.contrast(t, b) for t in texts for b in bgs)


def _two_invocations(root, warmup, target, settings, env, order_key):
    """Same process: first an invocation over another stylesheet in another directory (discarded), then the judged one."""
    wdir = os.path.join(root, "warm")
    os.makedirs(os.path.join(wdir, "t"), exist_ok=True)
    with open(os.path.join(wdir, "t", "w.css"), "wb") as fh:
        fh.write(gen.render(warmup["ast"]).encode("utf-8"))
    cli_run.cli_exec(wdir, "t/w.css", warmup["settings"], cwd_rel="c")
    base.rm_tree(wdir)
    return cli_run.cli_exec(root, target, settings, cwd_rel=env["cwd"], order_key=order_key, tty=env["tty"], argform=env["argform"])


def _sheets(trace):
    if trace.get("sheets"):
        return [(sh["name"], gen.render(sh["ast"])) for sh in trace["sheets"]]
    return [(trace["env"]["name"], gen.render(trace["ast"]))]


def execute(trace):
    env, settings = trace["env"], trace["settings"]
    sheets = _sheets(trace)
    multi = len(sheets) > 1
    root = base.new_sandbox("c08")
    events, vio, stats = [], [], {}
    skipped = 0

    def bump(k, n=1):
        stats[k] = stats.get(k, 0) + n

    def V(kind, feats=None, **detail):
        f = {"kind": kind}
        f.update(feats or {})
        vio.append({"kind": kind, "detail": detail, "features": f})

    try:
        tdir = os.path.join(root, "tree")
        os.makedirs(tdir)
        for name, text in sheets:
            pth = os.path.join(tdir, name)
            os.makedirs(os.path.dirname(pth), exist_ok=True)
            with open(pth, "wb") as fh:
                fh.write(text.encode("utf-8"))
        name, text = sheets[0]
        if env.get("stale_out"):
            with open(os.path.join(tdir, name[:-4] + "_cm.css"), "wb") as fh:
                fh.write((text + "\n" + text + "\n" + "/* old */\n" * 20).encode("utf-8"))
            bump("longer_stale_output_present")
        target = "tree/" + name if (env["inv"] == "file" and not multi) else "tree"
        if trace.get("prior"):
            base.in_fork(cli_run.cli_exec, root, target, trace["prior"], cwd_rel=env["cwd"], order_key=trace.get("order_key"),
                         argform=env["argform"], timeout=200)
            bump("already_processed_with_other_settings")
            # (the earlier run's report is removed: a run that adjusts nothing writes none and leaves an old one alone)
            try:
                os.unlink(os.path.join(root, env["cwd"], "cm_colors_report.html"))
            except OSError:
                pass
        if env.get("real") and not multi:
            res = cli_run.cli_exec_real(root, target, settings, cwd_rel=env["cwd"], argform=env["argform"], locale_mode=env["real"])
            bump("real_interpreter_runs")
            if env["real"] == "C":
                bump("non_utf8_locale_runs")
        elif trace.get("warmup"):
            res = base.in_fork(_two_invocations, root, trace["warmup"], target, settings, env, trace.get("order_key"), timeout=300)
            bump("second_invocation_in_process_runs")
        else:
            res = base.in_fork(cli_run.cli_exec, root, target, settings, cwd_rel=env["cwd"], order_key=trace.get("order_key"),
                               tty=env["tty"], argform=env["argform"], in_thread=bool(env.get("in_thread")), timeout=200)
            if env.get("in_thread"):
                bump("invoked_from_non_main_thread")
        after = seams.snapshot(root)
        out_ents = {n: after.get("tree/" + n[:-4] + "_cm.css") for n, _ in sheets}
        out_ent = out_ents[name]
        rep_rel = os.path.normpath(os.path.join(env["cwd"], "cm_colors_report.html"))
        rep_ent = after.get(rep_rel)
        summ = cli_run.parse_stdout(res["out"])
        events.append((res["exit"], res["out"], res["err"], res["io"], sorted((n, base.digest(e)) for n, e in out_ents.items()), base.digest(rep_ent)))
        premium = bool(settings.get("premium"))
        target_ratio = refs.target_ratio(premium=premium)
        dbg = settings.get("default_bg") or "white"
        bump("mode%d" % (settings.get("mode") if settings.get("mode") is not None else 1))
        if premium:
            bump("premium_runs")
        if settings.get("default_bg"):
            bump("default_bg_runs")
        if target == "tree":
            bump("dir_invocation")
        if multi:
            bump("multi_file_runs")
        if any(".css" in part for n, _ in sheets for part in n.split("/")[:-1]):
            bump("directory_named_like_a_stylesheet")
        if any(t.count("var(") >= 9 for _n, t in sheets):
            bump("long_var_chain")

        # reference reading of the input(s); selectors are unique across the files of a run
        def bn(x):
            return x.rsplit("/", 1)[-1]

        crules, by_sel, feats_of, file_of, defs_of, key_of = [], {}, {}, {}, {}, {}
        for fname, ftext in sheets:
            infos, props = refs.analyse(ftext, dbg)
            defs = refs.custom_property_defs(tinycss2.parse_stylesheet(ftext, skip_whitespace=True, skip_comments=True))
            for ri in infos:
                if ri.color_decls:
                    k = (bn(fname), ri.selector)
                    key_of[id(ri)] = k
                    crules.append(ri)
                    by_sel.setdefault(k, []).append(ri)
                    feats_of[k] = rule_features(ri, infos, defs, props)
                    feats_of[k]["multi_file"] = multi
                    file_of[k] = fname
                    defs_of[k] = defs
        if any(len(v) > 1 for v in by_sel.values()):
            raise base.HarnessError("generator produced duplicate selectors among colour rules")
        bump("rules_total", len(crules))
        if any(f["shared_var"] for f in feats_of.values()):
            bump("shared_var_sheet")
        if any(f["selector_is_root"] for f in feats_of.values()):
            bump("root_direct_color")
        if any(f["color_winner_not_last"] or f["bg_winner_not_last"] for f in feats_of.values()) or any(c[2] for ri in crules for c in ri.color_decls):
            bump("important_present")
        if any(f["prop_case"] for f in feats_of.values()):
            bump("prop_case_present")
        if any(ri.depth >= 3 for ri in crules):
            bump("nested_depth_3")
        sheet_feats = {"any_prop_case": any(f["prop_case"] for f in feats_of.values()),
                       "any_shared_var": any(f["shared_var"] for f in feats_of.values()),
                       "any_root_color": any(f["selector_is_root"] for f in feats_of.values()), "multi_file": multi}

        if res["exit"] != 0:
            V("cli-raised", sheet_feats, exit=res["exit"], exc=res.get("exc"))
        # a DIRECTORY whose name ends in .css (normalize.css/normalize.css) is itself picked up by a directory run and
        # reported as unreadable: that line is about the directory, not about a stylesheet of this run (C18's subject)
        mine = {"<SBX>/tree/" + n for n, _ in sheets}
        if (set(res["err_paths"]) & mine) or any(e is None or e[0] != "f" for e in out_ents.values()):
            V("no-output", sheet_feats, stderr_tail=res["err"][-400:])
            return {"violations": vio, "digest": base.digest(events), "nontrivial": True, "stats": stats, "steps": len(res["io"]), "skipped": 0}
        o_by_sel, odefs_of = {}, {}
        for fname, _t in sheets:
            out_text = out_ents[fname][1].decode("utf-8")
            oinfos, oprops = refs.analyse(out_text, dbg)
            odefs = refs.custom_property_defs(tinycss2.parse_stylesheet(out_text, skip_whitespace=True, skip_comments=True))
            for ri in oinfos:
                if ri.color_decls:
                    o_by_sel.setdefault((bn(fname), ri.selector), []).append(ri)
                    odefs_of[(bn(fname), ri.selector)] = odefs

        cards = []
        if rep_ent is not None and rep_ent[0] == "f":
            bump("report_present")
            cards = report.parse_cli_report(rep_ent[1].decode("utf-8"))
        A_, T_, F_ = summ["A"], summ["T"], summ["F"]
        bump("cat_accessible", A_)
        bump("cat_tuned", T_)
        bump("cat_failed", F_)
        if A_ and T_ and F_:
            bump("all_three_in_one_run")
        nontrivial = (T_ + F_) > 0

        # 2. count law
        if A_ + T_ + F_ != len(crules):
            V("count-law", sheet_feats, counted={"A": A_, "T": T_, "F": F_}, rules_with_text_colour=len(crules),
              selectors=[ri.selector for ri in crules])
        # 3. attribution
        if T_ != len(cards):
            V("cards-vs-count", sheet_feats, T=T_, cards=len(cards))
        if F_ != len(summ["failed"]):
            V("failed-list-vs-count", sheet_feats, F=F_, listed=len(summ["failed"]))
        card_sels = [(c["file"], c["selector"]) for c in cards]
        fail_sels = [(f_, s_) for (f_, s_) in summ["failed"]]
        for s in card_sels + fail_sels:
            if s not in by_sel:
                V("double-listed", sheet_feats, file=s[0], selector=s[1], note="reported (file, selector) is not a rule with a text colour in the stylesheets")
        dup = sorted({s for s in card_sels + fail_sels if (card_sels + fail_sels).count(s) > 1})
        for s in dup:
            V("double-listed", dict(feats_of.get(s, {}), **sheet_feats), file=s[0], selector=s[1], in_cards=card_sels.count(s), in_failed=fail_sels.count(s))

        # 4. adjusted rules
        api_cache = {}
        for c in cards:
            sel = (c["file"], c["selector"])
            ri = by_sel.get(sel, [None])[0]
            if ri is None:
                continue
            rf = dict(feats_of[sel], **sheet_feats)
            if rf["ckind"].startswith("var"):
                bump("tuned_via_variable")
            elif rf["ckind"] == "literal":
                bump("tuned_literal")
            if "fallback" in rf["ckind"]:
                bump("fallback_used")
            if rf["nested"]:
                bump("nested_rule_tuned")
            if rf["alpha_text"]:
                bump("alpha_text_tuned")
            after_rgb = refs.css_rgb(c["after"]) if c["after"] else None
            ori = o_by_sel.get(sel, [None])[-1]  # (should the written file hold the selector twice, the later block is what applies)
            if ori is None:
                V("reported-not-written", rf, selector=sel[1], file=sel[0], note="rule has no text colour in the written file")
                continue
            w_text, w_bg = refs.effective_pair_rgb(ori)
            if after_rgb is None or w_text is None or tuple(w_text) != tuple(after_rgb):
                V("reported-not-written", rf, selector=sel[1], file=sel[0], reported_after=c["after"], written_value=ori.color_value,
                  written_effective=ori.eff_text, written_rgb=w_text)
            if w_text is not None and w_bg is not None:
                ratio = _best_ratio(w_text, w_bg, _is_alpha(ori), _is_alpha_bg(ori))
                if refs.near_threshold(ratio, (target_ratio,)):
                    skipped += 1
                elif ratio < target_ratio:
                    V("written-fails-target", rf, selector=sel[1], file=sel[0], written_text=w_text, written_bg=w_bg, ratio=ratio, target=target_ratio)
            # api
            key = (c["before"], c["bg"])
            if key not in api_cache:
                api_cache[key] = base.in_fork(_api, c["before"], c["bg"], settings.get("mode"), premium, timeout=120)
                bump("api_calls")
            kind, val = api_cache[key]
            if kind != "ok" or val != (c["after"], True):
                V("api-mismatch", rf, selector=sel[1], file=sel[0], before=c["before"], bg=c["bg"], reported_after=c["after"], api=repr(val))
            # before / bg are the pair the stylesheet specifies
            i_text, i_bg = refs.effective_pair_rgb(ri)
            r_bg = refs.css_rgb(c["bg"], over=(255, 255, 255)) if c["bg"] else None
            r_before = refs.css_rgb(c["before"], over=r_bg) if (c["before"] and r_bg) else None
            if i_text is None or i_bg is None or r_bg is None or r_before is None or tuple(r_bg) != tuple(i_bg) or \
                    max(abs(a - b) for a, b in zip(r_before, i_text)) > (2 if rf["alpha_text"] else 0):
                V("before-mismatch", rf, selector=sel[1], file=sel[0], reported_before=c["before"], reported_bg=c["bg"], stylesheet_text=ri.eff_text,
                  stylesheet_bg=ri.eff_bg, stylesheet_rgb=[i_text, i_bg])

        # 5. rules needing attention: listed (done above) and left unchanged
        for sel in fail_sels:
            ri = by_sel.get(sel, [None])[0]
            if ri is None:
                continue
            rf = dict(feats_of[sel], **sheet_feats)
            ori = o_by_sel.get(sel, [None])[-1]  # (should the written file hold the selector twice, the later block is what applies)
            same = ori is not None and _decl_nf(ri, "color") == _decl_nf(ori, "color")
            changed_props = [n for n in ri.var_refs if _defs_nf(defs_of[sel].get(n)) != _defs_nf(odefs_of.get(sel, {}).get(n))]
            if not same or changed_props:
                V("failed-rule-changed", rf, selector=sel[1], file=sel[0], input=ri.color_decls, output=(ori.color_decls if ori else None),
                  changed_custom_properties=changed_props)

        # 6. everything else was counted as already readable: it must meet the target in the written file
        for ri in crules:
            rk = key_of[id(ri)]
            if rk in card_sels or rk in fail_sels:
                continue
            rf = dict(feats_of[rk], **sheet_feats)
            ori = o_by_sel.get(rk, [None])[-1]
            if ori is None:
                V("accessible-fails-target", rf, selector=ri.selector, note="rule lost its text colour in the written file")
                continue
            w_text, w_bg = refs.effective_pair_rgb(ori)
            if w_text is None or w_bg is None:
                # only meaningful if the rule was counted at all (count-law reports uncounted rules)
                if A_ + T_ + F_ == len(crules):
                    V("accessible-fails-target", rf, selector=ri.selector, note="counted as already readable but its colours are not valid",
                      text=ori.eff_text, bg=ori.eff_bg)
                continue
            ratio = _best_ratio(w_text, w_bg, _is_alpha(ori), _is_alpha_bg(ori))
            if refs.near_threshold(ratio, (target_ratio,)):
                skipped += 1
            elif ratio < target_ratio and A_ + T_ + F_ == len(crules):
                V("accessible-fails-target", rf, selector=ri.selector, written_text=w_text, written_bg=w_bg, ratio=ratio, target=target_ratio)

        # 8. fidelity of the simulation itself: the real entry point in a real subprocess (pipes, real open, OS
        #    traversal order) must produce the same bytes and the same summary as the in-process run behind seams
        if trace.get("subproc") and not multi and not env.get("real"):
            bump("subprocess_crosscheck")
            _subprocess_crosscheck(root, name, text, target, settings, env, res, out_ent, rep_ent)

        # attribution of violations on shared-custom-property rules to known finding F5: only when the whole run
        # behaves exactly like the sequential in-place model (computed lazily, only if such a violation exists)
        if any(v["features"].get("shared_var") for v in vio):
            ok = inplace_model_matches(sheets, settings, cards, fail_sels, {n: out_ents[n][1].decode("utf-8") for n, _ in sheets}, {})
            bump("inplace_model_evaluated")
            if ok:
                bump("inplace_model_matched")
            for v in vio:
                if v["features"].get("shared_var"):
                    v["features"]["inplace_model_ok"] = ok

        # 7. report presence
        if T_ > 0 and (rep_ent is None or summ["report"] is None):
            V("report-presence", sheet_feats, T=T_, report_file=rep_ent is not None, report_line=summ["report"])
        if T_ == 0 and rep_ent is not None:
            V("report-presence", sheet_feats, T=0, note="report written although nothing was adjusted")
    finally:
        base.rm_tree(root)
    return {"violations": vio, "digest": base.digest(events), "nontrivial": nontrivial, "stats": stats, "steps": len(res["io"]), "skipped": skipped}


def _subprocess_crosscheck(root, name, text, target, settings, env, res, out_ent, rep_ent):
    import subprocess
    import sys

    r2 = base.new_sandbox("c08sub")
    try:
        for d in ("tree", "cwd", "home", "tmp"):
            os.makedirs(os.path.join(r2, d), exist_ok=True)
        os.makedirs(os.path.dirname(os.path.join(r2, "tree", name)), exist_ok=True)
        with open(os.path.join(r2, "tree", name), "wb") as fh:
            fh.write(text.encode("utf-8"))
        cwd = os.path.join(r2, env["cwd"])
        tabs = os.path.join(r2, target)
        arg = os.path.relpath(tabs, cwd) if env["argform"] == "rel" else tabs
        envp = dict(os.environ, HOME=os.path.join(r2, "home"), TMPDIR=os.path.join(r2, "tmp"), COLUMNS="80", LINES="24",
                    PYTHONIOENCODING="utf-8", LC_ALL="C.UTF-8")
        for v in ("NO_COLOR", "FORCE_COLOR"):
            envp.pop(v, None)
        p = subprocess.run([sys.executable, "-m", "cm_colors.cli.main"] + cli_run.cli_args(arg, settings), cwd=cwd, env=envp,
                           capture_output=True, timeout=200)
        snap = seams.snapshot(r2)
        out2 = cli_run.strip_ansi(p.stdout.decode("utf-8", "replace")).replace(os.path.realpath(r2), "<SBX>")
        out1 = cli_run.strip_ansi(res["out"])
        same = (p.returncode == (res["exit"] if isinstance(res["exit"], int) else 1)
                and out1 == out2
                and snap.get("tree/" + name[:-4] + "_cm.css") == out_ent
                and snap.get(os.path.normpath(os.path.join(env["cwd"], "cm_colors_report.html"))) == rep_ent)
        if not same:
            raise base.HarnessError("in-process simulation and real subprocess disagree: exit %r vs %r; stdout equal %r; output equal %r; report equal %r; stderr %s"
                                    % (res["exit"], p.returncode, out1 == out2, snap.get("tree/" + name[:-4] + "_cm.css") == out_ent,
                                       snap.get(os.path.normpath(os.path.join(env["cwd"], "cm_colors_report.html"))) == rep_ent,
                                       p.stderr.decode("utf-8", "replace")[-300:]))
    finally:
        base.rm_tree(r2)


def _is_alpha_bg(ri):
    a = refs.css_rgba(ri.eff_bg) if getattr(ri, "eff_bg", None) else None
    return bool(a and a[3] < 1.0)


def _is_alpha(ri):
    a = refs.css_rgba(ri.eff_text) if ri.eff_text else None
    return bool(a and a[3] < 1.0)


def _decl_nf(ri, prop):
    ds = [d for d in tinycss2.parse_declaration_list(ri.node.content, skip_whitespace=True, skip_comments=True)
          if getattr(d, "lower_name", None) == prop]
    return [(d.name, tuple(refs._tok_nf(d.value)), bool(d.important)) for d in ds]


def _defs_nf(defs):
    if defs is None:
        return None
    return [(s, tuple(refs._tok_nf(tinycss2.parse_component_value_list(v))), i) for (s, v, i) in defs]


# ---------------------------------------------------------------------------


def shrink(trace):
    if trace.get("warmup"):
        t = copy.deepcopy(trace)
        del t["warmup"]
        yield t
        for t2 in shrink_sheet(trace["warmup"]["ast"]):
            t = copy.deepcopy(trace)
            t["warmup"]["ast"] = t2
            yield t
    if trace.get("sheets"):
        for i in range(len(trace["sheets"])):
            t = copy.deepcopy(trace)
            del t["sheets"][i]
            if len(t["sheets"]) == 1:
                t["ast"] = t["sheets"][0]["ast"]
                t["env"]["name"] = t["sheets"][0]["name"].rsplit("/", 1)[-1]
                del t["sheets"]
            yield t
        for i, sh in enumerate(trace["sheets"]):
            for t2 in shrink_sheet(sh["ast"]):
                t = copy.deepcopy(trace)
                t["sheets"][i]["ast"] = t2
                yield t
        for k in list(trace["settings"]):
            t = copy.deepcopy(trace)
            del t["settings"][k]
            yield t
        return
    for t2 in shrink_sheet(trace["ast"]):
        t = copy.deepcopy(trace)
        t["ast"] = t2
        yield t
    for k in list(trace["settings"]):
        t = copy.deepcopy(trace)
        del t["settings"][k]
        yield t
    base_env = {"cwd": "cwd", "tty": False, "argform": "abs", "inv": "file", "name": "a.css"}
    if trace["env"].get("real"):
        base_env["real"] = trace["env"]["real"]
        t = copy.deepcopy(trace)
        del t["env"]["real"]
        yield t
    if trace["env"] != base_env:
        t = copy.deepcopy(trace)
        t["env"] = base_env
        yield t
    # simplify colour values: literal spellings -> #rrggbb
    for i, r_ in enumerate(gen.sheet_rules(trace["ast"])):
        for j, d in enumerate(r_["decls"]):
            if "v" in d and not d["v"].startswith(("#", "var(")):
                rgb = refs.css_rgb(d["v"])
                if rgb is not None:
                    t = copy.deepcopy(trace)
                    gen.sheet_rules(t["ast"])[i]["decls"][j]["v"] = "#%02x%02x%02x" % rgb
                    yield t
            if "p" in d and d["p"] != d["p"].lower():
                t = copy.deepcopy(trace)
                gen.sheet_rules(t["ast"])[i]["decls"][j]["p"] = d["p"].lower()
                yield t


def sample_view(trace, res):
    return {"stylesheets": {n: t[:1500] for n, t in _sheets(trace)}, "settings": trace["settings"], "env": trace["env"], "features": trace["feats"],
            "digest": res["digest"], "stats": res["stats"]}
