"""Entry point: python -m verif_sim.main <PROP> [--tier quick|thorough] [--replay FILE] [--runs N] [--budget S]."""
import argparse
import hashlib
import os
import sys


def _reexec_env(seed):
    want = {
        "PYTHONHASHSEED": str(int(hashlib.sha256(f"hashseed|{seed}".encode()).hexdigest()[:8], 16) % 4294967295),
        "PYTHONDONTWRITEBYTECODE": "1",
        "PYTHONPATH": os.environ.get("VERIF_REPO_SRC", "/repo/src") + os.pathsep + os.path.dirname(os.path.dirname(os.path.abspath(__file__))),
        "CMVERIF_REEXEC": "1",
        # an explicit UTF-8 locale with Python's UTF-8 mode OFF: the interpreter's default text encoding is then the
        # locale's (UTF-8 here), as on an ordinary desktop, and a host-side locale.setlocale() can change it (C15)
        "LC_ALL": "C.UTF-8", "LANG": "C.UTF-8", "PYTHONUTF8": "0", "PYTHONCOERCECLOCALE": "0",
    }
    return want


def main(argv=None):
    ap = argparse.ArgumentParser()
    ap.add_argument("prop")
    ap.add_argument("--tier", default=os.environ.get("VERIF_TIER", "quick"), choices=("quick", "thorough"))
    ap.add_argument("--replay")
    ap.add_argument("--runs", type=int, default=None)
    ap.add_argument("--budget", type=float, default=None)
    a = ap.parse_args(argv)
    seed = int(os.environ.get("VERIF_SEED", "0") or 0)
    if os.environ.get("CMVERIF_REEXEC") != "1":
        env = dict(os.environ)
        env.update(_reexec_env(seed))
        os.execve(sys.executable, [sys.executable, "-m", "verif_sim.main"] + (argv or sys.argv[1:]), env)
    import faulthandler

    faulthandler.enable()
    from . import driver

    if a.replay:
        return driver.run_replay(a.prop, a.replay)
    budget = a.budget
    if budget is None and os.environ.get("VERIF_BUDGET_S"):
        budget = float(os.environ["VERIF_BUDGET_S"])
    workers = int(os.environ["VERIF_WORKERS"]) if os.environ.get("VERIF_WORKERS") else None
    return driver.run_check(a.prop, a.tier, seed, budget_s=budget, workers=workers, max_runs=a.runs)


if __name__ == "__main__":
    sys.exit(main())
