"""Deterministic simulation with fault injection for cm-colors (see /verif/DESIGN.md)."""
