"""API operations as data: executor, value codec, effect recording (used by C12, C15, C17).

An operation is a JSON-able dict; `run_op` executes it against the real library and returns a
JSON-able result.  The same function, called through base.in_fork from a process in which
no cm_colors function has ever run, is the pristine-process oracle.
"""
import os
import sys

from . import base, seams


def enc(x):
    """Python value -> JSON-able value that keeps tuple/list and str/other distinctions."""
    if isinstance(x, tuple):
        return {"T": [enc(i) for i in x]}
    if isinstance(x, list):
        return [enc(i) for i in x]
    if x is None or isinstance(x, (bool, int, str)):
        return x
    if isinstance(x, float):
        return {"F": x.hex()} if x == x and x not in (float("inf"), float("-inf")) else {"F": repr(x)}
    return {"R": repr(x)}


def dec(x):
    if isinstance(x, dict):
        if "T" in x:
            return tuple(dec(i) for i in x["T"])
        if "F" in x:
            try:
                return float.fromhex(x["F"])
            except ValueError:
                return float(x["F"])
        raise ValueError(x)
    if isinstance(x, list):
        return [dec(i) for i in x]
    return x


def _kw(op, names):
    kw = {}
    for n, k in names:
        if op.get(n) is not None:
            kw[k] = op[n]
    return kw


class Ctx:
    """Per-process state of a history: object slots."""

    def __init__(self):
        self.slots = {}
        self.slot_spec = {}
        self.held = []


def _pair_state(p):
    """The observable state of a ColorPair ("does not alter the ColorPair"): what its public attributes and
    properties answer, plus the parsed colour/format its later results are computed from. Private bookkeeping a
    class may add (a memo attribute, say) is deliberately not part of it: if such state ever changes an answer,
    the history probes report that as history-dependence."""
    def cs(c):
        return {"original": enc(c.original), "rgb": enc(c.rgb), "error": enc(c.error), "is_valid": c.is_valid, "hex": c.to_hex(),
                "_rgb": enc(getattr(c, "_rgb", None)), "_format": enc(getattr(c, "_format", None))}

    return {"text": cs(p.text), "bg": cs(p.bg), "large": enc(p.large), "is_valid": p.is_valid, "errors": enc(p.errors),
            "is_readable": enc(p.is_readable), "text_is_Color": type(p.text).__name__, "bg_is_Color": type(p.bg).__name__}


def run_op(op, ctx=None):
    """Execute one operation. Returns {"ret": ...} or {"exc": "..."} (+ "state" for slot ops)."""
    import cm_colors
    from cm_colors import Color, ColorPair, make_readable_bulk

    kind = op["op"]
    if op.get("thread"):
        # the call is issued from a thread that is not the main thread (a worker, an executor job, a web handler)
        import threading

        box = []
        sub = {k: v for k, v in op.items() if k != "thread"}

        def _t():
            try:
                box.append(("ok", run_op(sub, ctx)))
            except BaseException as e:  # noqa  (HarnessError included: re-raised in the caller)
                box.append(("err", e))

        th = threading.Thread(target=_t, name="caller-thread")
        th.start()
        th.join()
        if box[0][0] == "err":
            raise box[0][1]
        return box[0][1]
    out = {}
    try:
        if kind == "color":
            c = Color(dec(op["v"]))
            out["ret"] = enc([c.is_valid, c.rgb, c.error, c.to_hex()])
        elif kind == "pair":
            p = ColorPair(dec(op["t"]), dec(op["b"]), op.get("large", False))
            out["ret"] = enc([p.is_valid, p.errors, p.is_readable])
        elif kind == "make":
            p = ColorPair(dec(op["t"]), dec(op["b"]), op.get("large", False))
            r = p.make_readable(**_kw(op, (("mode", "mode"), ("vr", "very_readable"), ("show", "show"), ("save", "save_report"))))
            out["ret"] = enc(r)
        elif kind == "bulk":
            pairs = []
            for e in op["pairs"]:
                e2 = [dec(x) for x in e]
                pairs.append(tuple(e2) if op.get("as", "tuple") == "tuple" else e2)
            cont = op.get("container")
            if cont == "tuple":
                pairs = tuple(pairs)
            elif cont == "iter":
                pairs = iter(pairs)  # a one-shot iterator (zip(texts, bgs), map(...), a generator)
            elif cont == "gen":
                pairs = (x for x in list(pairs))
            elif cont == "gen-raise":
                # the caller's own data source fails part-way (a database cursor, a file being parsed)
                def _src(items=list(pairs), k=op.get("raise_at", 1)):
                    for j, x in enumerate(items):
                        if j == k:
                            raise RuntimeError("data source failed")
                        yield x
                    if k >= len(items):
                        raise RuntimeError("data source failed")

                pairs = _src()
            r = make_readable_bulk(pairs, **_kw(op, (("mode", "mode"), ("vr", "very_readable"), ("save", "save_report"))))
            out["ret"] = enc(r)
            if ctx is not None and op.get("hold"):
                ctx.held.append((r, out["ret"]))  # the caller keeps the returned object: it must not change later
        elif kind == "newpair":
            p = ColorPair(dec(op["t"]), dec(op["b"]), op.get("large", False))
            ctx.slots[op["slot"]] = p
            ctx.slot_spec[op["slot"]] = {"t": op["t"], "b": op["b"], "large": op.get("large", False)}
            out["ret"] = enc([p.is_valid, p.errors, p.is_readable])
        elif kind == "make_on":
            p = ctx.slots[op["slot"]]
            before = _pair_state(p)
            rb = p.is_readable
            r = p.make_readable(**_kw(op, (("mode", "mode"), ("vr", "very_readable"), ("show", "show"), ("save", "save_report"))))
            after = _pair_state(p)
            ra = p.is_readable
            out["ret"] = enc(r)
            out["mutated"] = None if (before == after and rb == ra) else {"before": before, "after": after, "readable": [rb, ra]}
        elif kind == "readable_on":
            p = ctx.slots[op["slot"]]
            out["ret"] = enc([p.is_valid, p.errors, p.is_readable])
        else:
            raise base.HarnessError("unknown op " + kind)
    except base.HarnessError:
        raise
    except Exception as e:  # noqa
        out["exc"] = f"{type(e).__name__}: {e}"
    return out


def fresh_equivalent(op, ctx):
    """The operation whose pristine-process result a slot operation must equal."""
    if op["op"] == "make_on":
        s = ctx.slot_spec[op["slot"]]
        return dict({k: v for k, v in op.items() if k not in ("op", "slot")}, op="make", **s)
    if op["op"] == "readable_on":
        s = ctx.slot_spec[op["slot"]]
        return dict(op="pair", **s)
    if op["op"] == "newpair":
        return {"op": "pair", "t": op["t"], "b": op["b"], "large": op.get("large", False)}
    return op


def plain_variant(op):
    """The same call without show / save_report."""
    o = dict(op)
    o.pop("show", None)
    o.pop("save", None)
    return o


def oracle_key(op):
    return base.canon(op)


def oracle(op, cache, timeout=120.0):
    """Pristine-process result of `op` (the caller must not have run any cm_colors code yet,
    or must itself be a fork of such a process)."""
    k = oracle_key(op)
    if k not in cache:
        cache[k] = base.in_fork(_oracle_run, op, timeout=timeout)
    return cache[k]


def _oracle_run(op):
    # recorders so that a show/save op in the oracle does not write to the real terminal / cwd
    root = base.new_sandbox("orc")
    try:
        with Effects(root) as fx:
            r = run_op(op, Ctx())
        r.pop("mutated", None)
        if op.get("save"):
            # what a fresh process writes as its report(s): base name -> digest of the bytes
            made = {}
            for rel, ent in fx.after.items():
                if rel.startswith("cwd/") and ent[0] == "f" and fx.before.get(rel) != ent:
                    made[rel.rsplit("/", 1)[-1]] = base.digest(ent[1])
            r["files"] = made
        return r
    finally:
        base.rm_tree(root)


class Effects:
    """Record everything an operation does to the outside: stream bytes, file-system events
    (audit hook), sandbox snapshot diff.  cwd is <root>/cwd."""

    def __init__(self, root, tty=False, no_color=False, plan=None, cwd_rel="cwd", extra_env=None, tmpdir_abs=None, stdout_kind="rec"):
        self.stdout_kind = stdout_kind
        self.cwd_rel = cwd_rel
        self.extra_env = extra_env
        self.tmpdir_abs = tmpdir_abs
        self.root = os.path.realpath(root)
        self.tty = tty
        self.no_color = no_color
        self.plan = plan

    def __enter__(self):
        import cm_colors.cli.html_report as H
        import cm_colors.core.visualiser as V

        root = self.root
        for d in ("cwd", "home", "tmp", self.cwd_rel):
            os.makedirs(os.path.join(root, d), exist_ok=True)
        self.old_cwd = os.getcwd()
        os.chdir(os.path.join(root, self.cwd_rel))
        seams.set_terminal_env(root, no_color=self.no_color)
        if self.extra_env:
            os.environ[self.extra_env] = "1"  # e.g. FORCE_COLOR / TTY_COMPATIBLE as CI systems set them
        if self.tmpdir_abs:
            # the temp directory lives on ANOTHER file system than the working directory (tmpfs vs disk)
            os.makedirs(self.tmpdir_abs, exist_ok=True)
            os.environ["TMPDIR"] = self.tmpdir_abs
            import tempfile

            tempfile.tempdir = None
            self.tmp_before = seams.snapshot(self.tmpdir_abs)
        self.before = seams.snapshot(root)
        self.out, self.err = seams.Rec(self.tty, "<stdout>"), seams.Rec(self.tty, "<stderr>")
        if self.stdout_kind == "minimal":
            self.out = seams.MinimalStream()
        self.saved = (sys.stdout, sys.stderr, V.__dict__.get("open"), H.__dict__.get("open"))
        sys.stdout, sys.stderr = self.out, self.err
        self.io = seams.SimIOPlan(root) if self.plan is None else self.plan
        V.open = H.open = self.io.open
        self.audit = seams.audit_start(root)
        return self

    def __exit__(self, *a):
        import cm_colors.cli.html_report as H
        import cm_colors.core.visualiser as V

        seams.audit_stop()
        sys.stdout, sys.stderr = self.saved[0], self.saved[1]
        for mod, old in ((V, self.saved[2]), (H, self.saved[3])):
            if old is None:
                mod.__dict__.pop("open", None)
            else:
                mod.open = old
        os.chdir(self.old_cwd)
        self.after = seams.snapshot(self.root)
        if self.tmpdir_abs:
            self.tmp_after = seams.snapshot(self.tmpdir_abs)
        return False

    def summary(self):
        created, removed, changed = seams.snap_diff(self.before, self.after)
        if self.tmpdir_abs:
            c2, r2, ch2 = seams.snap_diff(self.tmp_before, self.tmp_after)
            created = created + ["<TMPDIR>/" + x for x in c2]
            removed = removed + ["<TMPDIR>/" + x for x in r2]
            changed = changed + ["<TMPDIR>/" + x for x in ch2]
        return {
            "stdout": self.out.getvalue().replace(self.root, "<SBX>"),
            "stderr": self.err.getvalue().replace(self.root, "<SBX>"),
            "created": created, "removed": removed, "changed": changed,
            "writes": [list(e) for e in self.audit if (e[0] == "open" and e[2] == "w") or e[0] != "open"],
            "tmpdir": self.tmpdir_abs,
            "io": [list(e) for e in self.io.log],
        }
