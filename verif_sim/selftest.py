"""Self-checks of the machinery (DESIGN 7): determinism, mutant sensitivity.

./check selftest-mini                 a few runs per property, twice each + once in a fresh interpreter under another hash seed
./check selftest-determinism [N]      N (default 200) seed/run pairs per property: same process twice, 1 worker vs 16 workers,
                                      fresh interpreter under a different PYTHONHASHSEED
./check selftest-mutants [ids...]     planned one-hunk mutants applied to a scratch copy of /repo/src; the property's quick tier must report a VIOLATION
./check selftest-digest P SEED I      print the digest of one run (used by the above)
"""
import concurrent.futures as cf
import json
import multiprocessing
import os
import subprocess
import sys
import time

from . import base


def _env(hashseed):
    env = dict(os.environ)
    env["PYTHONHASHSEED"] = str(hashseed)
    env["PYTHONDONTWRITEBYTECODE"] = "1"
    env["CMVERIF_REEXEC"] = "1"
    env["PYTHONPATH"] = base.REPO_SRC + os.pathsep + base.VERIF_DIR
    env.update({"LC_ALL": "C.UTF-8", "LANG": "C.UTF-8", "PYTHONUTF8": "0", "PYTHONCOERCECLOCALE": "0"})
    return env


def one_digest(prop, seed, idx, tier="quick"):
    from . import driver

    mod = driver.load_props()[prop]
    tr = mod.generate(base.run_seed(prop, seed, idx), tier, idx)
    return driver.exec_trace(mod, tr)["digest"]


def _digests_here(args):
    prop, seed, idxs = args
    from . import driver

    driver.preload()
    return [(i, one_digest(prop, seed, i)) for i in idxs]


def fresh_digests(prop, seed, idxs, hashseed):
    p = subprocess.run([sys.executable, "-m", "verif_sim.selftest", "selftest-digest", prop, str(seed)] + [str(i) for i in idxs],
                       env=_env(hashseed), capture_output=True, text=True, timeout=1800, cwd=base.VERIF_DIR)
    if p.returncode != 0:
        raise base.HarnessError("fresh interpreter digest failed: " + p.stderr[-1500:])
    return [tuple(x) for x in json.loads(p.stdout.strip().splitlines()[-1])]


def determinism(props, n, seeds=(0, 1), workers=16, verbose=True):
    from . import driver

    ctx = multiprocessing.get_context("fork")
    bad = []
    total = 0
    t0 = time.monotonic()
    for prop in props:
        for seed in seeds:
            idxs = list(range(n))
            chunks = [idxs[k::workers] for k in range(workers) if idxs[k::workers]]
            with cf.ProcessPoolExecutor(max_workers=workers, mp_context=ctx, initializer=driver._worker_init, initargs=(base.sandbox_base(),)) as ex:
                a = dict(x for part in ex.map(_digests_here, [(prop, seed, c) for c in chunks]) for x in part)
            # different partition / worker count
            w2 = 1 if n <= 16 else 3
            chunks2 = [idxs[k::w2] for k in range(w2)]
            with cf.ProcessPoolExecutor(max_workers=w2, mp_context=ctx, initializer=driver._worker_init, initargs=(base.sandbox_base(),)) as ex:
                b = dict(x for part in ex.map(_digests_here, [(prop, seed, c) for c in chunks2]) for x in part)
            # fresh interpreters under other hash seeds, in parallel
            parts = [idxs[k::8] for k in range(8) if idxs[k::8]]
            with cf.ThreadPoolExecutor(max_workers=8) as tp:
                c = dict(x for part in tp.map(lambda pi: fresh_digests(prop, seed, pi[1], 1000 + pi[0]), list(enumerate(parts))) for x in part)
            for i in idxs:
                total += 1
                if not (a[i] == b[i] == c[i]):
                    bad.append((prop, seed, i, a[i], b[i], c[i]))
            if verbose:
                print(f"determinism {prop} seed={seed}: {n} runs x 3 executions, mismatches so far {len(bad)}  ({time.monotonic() - t0:.0f}s)", flush=True)
    base.rm_tree(base.sandbox_base())
    return total, bad


def main(argv):
    cmd = argv[0]
    from . import driver

    if cmd == "selftest-digest":
        driver.preload()
        prop, seed = argv[1], int(argv[2])
        print(json.dumps([(int(i), one_digest(prop, seed, int(i))) for i in argv[3:]]))
        base.rm_tree(base.sandbox_base())
        return 0
    props = sorted(driver.load_props())
    if cmd == "selftest-mini":
        total, bad = determinism(props, 3, seeds=(0,), workers=3)
    elif cmd == "selftest-determinism":
        n = int(argv[1]) if len(argv) > 1 else 200
        if len(argv) > 2:
            props = argv[2:]
        total, bad = determinism(props, n)
    elif cmd == "selftest-mutants":
        from . import mutants

        return mutants.main(argv[1:])
    elif cmd == "selftest-benign":
        from . import mutants

        return mutants.main_benign(argv[1:])
    else:
        print("unknown selftest", cmd)
        return 2
    os.makedirs(driver.EVIDENCE_DIR, exist_ok=True)
    if cmd == "selftest-determinism":
        with open(os.path.join(driver.EVIDENCE_DIR, "selftest-determinism.json"), "w") as f:
            json.dump({"runs_compared": total, "executions_per_run": 3, "mismatches": bad, "props": props}, f, indent=1)
    if bad:
        for b in bad[:10]:
            print("HARNESS-ERROR nondeterministic run", b)
        return 2
    print(f"OK determinism: {total} runs, 3 executions each (16-way pool, small pool, fresh interpreter with another PYTHONHASHSEED), all digests equal")
    return 0


if __name__ == "__main__":
    if os.environ.get("CMVERIF_REEXEC") != "1":
        os.execve(sys.executable, [sys.executable, "-m", "verif_sim.selftest"] + sys.argv[1:], _env(12345))
    sys.exit(main(sys.argv[1:]))
