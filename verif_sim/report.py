"""Reader for cm_colors_report.html (CLI report): the cards, as a browser would expose them."""
import re
from html.parser import HTMLParser


class _P(HTMLParser):
    def __init__(self):
        super().__init__(convert_charrefs=True)
        self.cards = []
        self.cur = None
        self.stack = []  # (tag, classes)
        self.capture = None

    def handle_starttag(self, tag, attrs):
        a = dict(attrs)
        classes = (a.get("class") or "").split()
        self.stack.append((tag, classes))
        if tag == "div" and "card" in classes and len(classes) == 1:
            self.cur = {"selector": None, "file": None, "codes": [], "badges": [], "styles": []}
            self.cards.append(self.cur)
        if self.cur is None:
            return
        if "color-box" in classes:
            self.cur["styles"].append(a.get("style") or "")
        for c, key in (("selector", "selector"), ("file-info", "file")):
            if c in classes:
                self.cur[key] = ""
                self.capture = (key, len(self.stack))
        if "color-code" in classes:
            self.cur["codes"].append("")
            self.capture = ("codes", len(self.stack))
        if "badge" in classes:
            self.cur["badges"].append("")
            self.capture = ("badges", len(self.stack))

    def handle_endtag(self, tag):
        # pop to the matching tag (void elements such as <meta>/<link> are never closed)
        for i in range(len(self.stack) - 1, -1, -1):
            if self.stack[i][0] == tag:
                del self.stack[i:]
                break
        if self.capture and len(self.stack) < self.capture[1]:
            self.capture = None

    def handle_data(self, data):
        if self.capture and self.cur is not None:
            k = self.capture[0]
            if k in ("codes", "badges"):
                self.cur[k][-1] += data
            else:
                self.cur[k] += data


_STYLE_RE = re.compile(r"^background-color: (.*); color: (.*);$", re.S)


def parse_cli_report(html_text):
    """-> list of {selector, file, bg, before, after, level_before, level_after}."""
    p = _P()
    p.feed(html_text)
    p.close()
    out = []
    for c in p.cards:
        if c["selector"] is None and not c["codes"]:
            continue  # the "No changes were needed" placeholder card
        bg = None
        if c["styles"]:
            m = _STYLE_RE.match(c["styles"][0].strip())
            if m:
                bg = m.group(1)
        out.append({
            "selector": c["selector"], "file": c["file"], "bg": bg,
            "before": c["codes"][0].strip() if len(c["codes"]) > 0 else None,
            "after": c["codes"][1].strip() if len(c["codes"]) > 1 else None,
            "level_before": c["badges"][0].strip() if len(c["badges"]) > 0 else None,
            "level_after": c["badges"][1].strip() if len(c["badges"]) > 1 else None,
            "n_codes": len(c["codes"]),
        })
    return out
