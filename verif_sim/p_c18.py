"""C18 - CLI batches: per-file isolation, bad files skipped, outputs never re-consumed.

A run is a history over one directory tree: directory runs (seeded traversal order, seeded
settings, optional input-fault plan), single-file runs, tree mutations.  Oracle: after every
directory run each stylesheet's sibling output equals what a single-file run on a copy of
that file alone produces (DESIGN 4, C18).  Every CLI invocation happens in its own fork,
as in real life every invocation is its own process; the history travels through the
sandbox file system only.
"""
import os

from . import base, cli_run, gen, seams
from .base import stream

ID = "C18"
LEVEL = "fault_enumeration"
BUDGET = {"quick": 45.0, "thorough": 900.0}
CHUNK = 2
RUN_TIMEOUT = 240.0
SELFTEST_RUNS = 2
RULE = ("one run = a seeded history over a generated directory tree of 1-6 stylesheets: directory runs with seeded traversal "
        "order/settings/input faults, single-file runs, tree mutations; half of the runs are enumeration runs that place one "
        "fault kind at EVERY traversal position of a tree of <= 4 files. A run is non-trivial when a directory run met >= 1 "
        "fault object or processed >= 2 inputs; distinct = distinct digest of the whole event log (seam events, stdout/stderr, "
        "file-system snapshots).")
ASSUMPTIONS = [
    "single-file oracle runs execute the same cm_colors code on a copy of the file alone (that is the property's own right-hand side)",
    "input faults are real objects on a tmpfs sandbox, or injected at the interposed open() for EACCES/EIO (we run as root)",
    "a crash is not part of C18 (see C09); counters in the summary are shared by design and not compared",
]
PROBES = ["dirruns", "inputs_ge_3", "cross_file_var_ref", "stale_output_present", "repeat_run_checked", "enum_runs",
          "fault:non-utf8", "fault:empty", "fault:dir-named-css", "fault:dangling-link", "fault:unserialisable",
          "fault:eacces", "fault:eio", "fault:late-unserialisable", "fault:out-is-dir", "fault:eacces-out",
          "fault_first", "fault_middle", "fault_last", "cm_named_input_present", "late_fault_defines_props_others_reference", "symlinked_stylesheet_input", "duplicate_content_files", "same_translucent_text_in_several_files", "same_colour_with_annotated_value_in_several_files", "bom_files", "dirruns_in_one_process", "outputs_reencoded_between_runs", "hard_linked_stylesheet_names", "heavy_trees", "intrinsically_bad_entries_judged", "imports_of_sibling_stylesheets", "dirruns_stderr_none", "dirruns_in_thread", "dirruns_fd_headroom",
          "outputs_compared"]

FAULT_KINDS = ("non-utf8", "empty", "dir-named-css", "dangling-link", "unserialisable", "eacces", "eio",
               "late-unserialisable", "out-is-dir", "eacces-out")
# kinds where the faulty file is a well-formed stylesheet that fails LATE (after its custom properties were
# collected): the place where state of a failed file can leak into the next one
LATE_KINDS = ("late-unserialisable", "out-is-dir", "eacces-out")
C18_FEATURES = ("vars", "var-fallback", "var-undefined", "var-chain", "var-shared", "root-direct-color", "root-and-html",
                "important", "repeat-decl", "nesting", "bg-var", "keywords", "comments", "no-color-rules", "opaque-atrules",
                "non-ascii", "alpha-text", "bom", "crlf", "var-names", "own-colour-elsewhere", "var-cycle")
_NAMES = ("a.css", "b.css", "main.css", "style.css", "thème.css", "the\u0300me.css", "cafe\u0301.css", "my style.css", "z9.css", "reset.min.css", "c_cm2.css", ".hidden.css", "a.b.c.css")
_DIRS = ("", "", "sub/", "sub/deep/", "x.d/", "v1.css/", "pkg_cm.css/", "sub dir/", "theme[v2]/", "a*b/", "q?/.cfg/")
_UNSER = ("a{} }", "}", "a{color:#777} ]", "@media x{ a{color:#777} } }\n.b{color:#888}")
_NONUTF8 = ("fffe41", "612063c3286b7d", "80", "c0af", "7b636f6c6f723a23373737ff7d")


def _settings(rng):
    s = {"mode": rng.choice((1, 1, 1, 0, 0, 2, None))}
    if rng.random() < 0.3:
        s["premium"] = True
    if rng.random() < 0.35:
        s["default_bg"] = rng.choice(("black", "#222", "rgb(250, 250, 240)", "#FFFFFF", "navy", "var(--page-bg)", "var(--page-bg, #fafafa)"))
    return s


def _fault_entry(rng, kind):
    if kind == "non-utf8":
        return {"k": "bytes", "hex": rng.choice(_NONUTF8), "fault": kind}
    if kind == "empty":
        return {"k": "css", "text": "", "fault": kind}
    if kind == "dir-named-css":
        return {"k": "dir", "fault": kind}
    if kind == "dangling-link":
        return {"k": "link", "to": "nowhere-%d.css" % rng.randrange(9), "fault": kind}
    if kind == "unserialisable":
        return {"k": "css", "text": rng.choice(_UNSER), "fault": kind}
    raise ValueError(kind)


def _definer_block(rng):
    c1, c2 = gen.spell(rng, gen.rand_rgb(rng))[0], gen.spell(rng, gen.rand_rgb(rng))[0]
    imp = rng.choice(("", "", " !important"))
    sel = rng.choice((":root", ":root", "html"))
    return "%s{--x-shared:%s%s;--undefined0:%s%s;--c0:%s%s}\n" % (sel, c1, imp, c2, imp, c1, imp)


def _late_fault_entry(rng, kind, settings):
    """A well-formed stylesheet that defines custom properties and fails late."""
    e = _sheet_entry(rng, settings, True, "L")
    txt = _definer_block(rng) + e["text"]
    if kind == "late-unserialisable":
        txt += rng.choice(("\n}", "\n]", "\n}\n.after{color:#777}"))
    return {"k": "css", "text": txt, "fault": kind, "defines": True}


def _add_xref(rng, entry):
    v = rng.choice(("var(--x-shared)", "var(--x-shared, #777)", "var(--undefined0, #767676)", "var(--undefined0)", "var(--c0, #6a6a6a)"))
    entry["ast"]["items"].append({"t": "rule", "sel": ".xref%d" % rng.randrange(100), "decls": [
        {"p": "color", "v": v, "imp": ""}] + ([{"p": "background-color", "v": "var(--x-shared)", "imp": ""}] if rng.random() < 0.2 else [])})
    entry["text"] = gen.render(entry["ast"])
    entry["xref"] = True


def _sheet_entry(rng, settings, small, tag):
    feats = gen.draw_features(rng, C18_FEATURES, 0.35)
    ast = gen.gen_sheet(rng, feats, settings, max_rules=3 if small else 5, tag=tag)
    return {"k": "css", "ast": ast, "text": gen.render(ast), "feats": feats}


def _heavy_entry(rng, settings, tag):
    sg = gen.SheetGen(rng, [], settings, max_rules=10, tag=tag)
    ast = {"items": [sg.colour_rule() for _ in range(10)], "style": "compact"}
    return {"k": "css", "ast": ast, "text": gen.render(ast), "feats": [], "heavy": True}


def generate(rseed, tier, idx):
    g = stream(rseed, "gen")
    e = stream(rseed, "env")
    o = stream(rseed, "order")
    fr = stream(rseed, "faults")
    env = {"cwd": e.choice(("cwd", "cwd", "tree", "tree/sub")), "tty": e.random() < 0.3, "argform": e.choice(("abs", "abs", "rel", "noarg")),
           # where the command runs: stderr closed at start-up (cm-colors dir 2>&-, cron/daemon launchers: sys.stderr is None),
           # called from a worker thread, a process that may only hold a few more file descriptors than it has now
           "stderr_none": e.random() < 0.1, "in_thread": e.random() < 0.1, "fd_headroom": e.choice((None, None, None, 8, 12))}
    enum = idx % 2 == 1
    base_settings = _settings(g)
    nfiles = g.randint(1, 3) if enum else g.randint(1, 6)
    if not enum and g.random() < 0.04:
        nfiles = g.randint(12, 20)  # a component library: many small stylesheets in one run
    tree = {}
    used = set()
    heavy = not enum and g.random() < 0.02
    if heavy:
        nfiles = g.randint(20, 26)  # VOLUME: a couple of hundred colour pairs in one run (anything bounded per process is crossed)
    for k in range(nfiles):
        for _ in range(20):
            rel = g.choice(_DIRS) + (g.choice(_NAMES) if nfiles < 12 else "comp%02d.css" % g.randrange(40))
            if rel not in used and not rel.endswith("_cm.css"):
                break
        used.add(rel)
        tree[rel] = _heavy_entry(g, base_settings, "h%d" % k) if heavy else _sheet_entry(g, base_settings, enum, "")
    # cross-file custom properties: one file defines, others reference without defining
    if len(tree) >= 2 and g.random() < 0.6:
        names = sorted(tree)
        definer = g.choice(names)
        col = gen.spell(g, gen.rand_rgb(g))[0]
        tree[definer]["ast"]["items"].insert(0, {"t": "rule", "sel": ":root", "decls": [
            {"p": "--x-shared", "v": col, "imp": ""}, {"p": "--undefined0", "v": gen.spell(g, gen.rand_rgb(g))[0], "imp": ""}]})
        tree[definer]["text"] = gen.render(tree[definer]["ast"])
        for n in names:
            if n != definer and g.random() < 0.7:
                v = g.choice(("var(--x-shared)", "var(--x-shared, #777)", "var(--undefined0, #767676)", "var(--undefined0)"))
                tree[n]["ast"]["items"].append({"t": "rule", "sel": ".xref%d" % g.randrange(100), "decls": [
                    {"p": "color", "v": v, "imp": ""}] + ([{"p": "background-color", "v": "var(--x-shared)", "imp": ""}] if g.random() < 0.2 else [])})
                tree[n]["text"] = gen.render(tree[n]["ast"])
                tree[n]["xref"] = True
    # the very same translucent text spelling in several files, each time over another background
    if len(tree) >= 2 and g.random() < 0.35:
        txt = gen.spell_alpha(g, gen.rand_rgb(g), g.choice((0.25, 0.5, 0.75)), g.choice(gen.CSS_ALPHA_SPELLINGS))[0]
        for n in sorted(tree):
            if tree[n].get("ast") and g.random() < 0.8:
                decls = [{"p": "color", "v": txt, "imp": ""}]
                if g.random() < 0.7:
                    decls.append({"p": "background-color", "v": gen.spell(g, gen.rand_rgb(g))[0], "imp": ""})
                tree[n]["ast"]["items"].append({"t": "rule", "sel": ".alpha%d" % g.randrange(100), "decls": decls})
                tree[n]["text"] = gen.render(tree[n]["ast"])
                tree[n]["same_alpha"] = True
    # the SAME text colour in several files, in one of them as the fallback of an undefined custom property with an
    # annotation (comment) inside the declaration value: whatever is kept per replacement colour (a parsed value, a token
    # list, a formatted string) while such a declaration is rewritten must not reach the other files' declarations
    if len(tree) >= 2 and g.random() < 0.3:
        col = g.choice(("#777777", "#777", "#999999", "rgb(119, 119, 119)", "#8a8a8a"))
        forms = ["/* brand */ var(--cmt-undefined, %s)", "var(--cmt-undefined, %s) /* muted */", "var(--cmt-undefined,%s)/*x*/"]
        first = True
        for n in sorted(tree):
            if tree[n].get("ast") and (first or g.random() < 0.8):
                v = (g.choice(forms) % col) if (first or g.random() < 0.4) else g.choice((col, col, "var(--cmt-undefined, %s)" % col))
                first = False
                tree[n]["ast"]["items"].append({"t": "rule", "sel": ".cmt%d" % g.randrange(100), "decls": [{"p": "color", "v": v, "imp": ""}]})
                tree[n]["text"] = gen.render(tree[n]["ast"])
                tree[n]["same_colour_annotated"] = True
    # byte-identical copies of a stylesheet elsewhere in the tree (vendored copy, dist/ mirror)
    if g.random() < 0.3:
        src = g.choice(sorted(tree))
        for _ in range(g.randint(1, 2)):
            dst = g.choice(("vendor/", "dist/", "sub/", "")) + g.choice(("copy.css", "theme.css", src.rsplit("/", 1)[-1]))
            if dst not in tree:
                tree[dst] = dict(tree[src], duplicate_of=src)
    # bystanders and _cm-named inputs
    if g.random() < 0.5:
        tree[g.choice(_DIRS) + "theme_cm.css"] = {"k": "css", "text": ".t{color:#777}", "bystander": True}
    if g.random() < 0.3:
        tree["UPPER.CSS"] = {"k": "css", "text": ".u{color:#777}", "bystander": True}
    if g.random() < 0.2:
        tree[g.choice(_DIRS) + g.choice(("_cm.css", "x_cm_cm.css", "a_cm.CSS"))] = {"k": "css", "text": ".v{color:#777}", "bystander": True}
    if g.random() < 0.3:
        tree["notes.css.bak"] = {"k": "css", "text": ".n{color:#777}", "bystander": True}
    if g.random() < 0.2:
        tops = sorted(r for r in tree if tree[r].get("ast") and "/" not in r)
        if tops:
            tree["alias.css"] = {"k": "link", "to": g.choice(tops)}
    # stale outputs from an earlier (possibly crashed) run
    for rel in sorted(tree):
        if rel.endswith(".css") and not rel.endswith("_cm.css") and tree[rel].get("ast") and g.random() < 0.15:
            out = rel[:-4] + "_cm.css"
            if out not in tree:
                tree[out] = {"k": "css", "text": g.choice((".stale{color:#000", "", ".old{color:#123456}\n",
                                                           "/* stale output of an earlier run */\n" + ".leftover{color:#111111;margin:0}\n" * g.choice((3, 40)))), "stale": True}

    steps = []
    if enum:
        kind = FAULT_KINDS[(idx // 2) % len(FAULT_KINDS)]
        healthy = sorted(r for r in tree if tree[r].get("ast"))
        frel = g.choice(("", "sub/")) + "bad%d.css" % g.randrange(10)
        faults = []
        if kind in ("eacces", "eio"):
            tree[frel] = _sheet_entry(g, base_settings, True, "f")
            tree[frel]["fault"] = kind
            faults = [{"path": "tree/" + frel, "mode": "r", "n": 1, "what": kind}]
        elif kind in LATE_KINDS:
            tree[frel] = _late_fault_entry(fr, kind, base_settings)
            if kind == "out-is-dir":
                tree[frel[:-4] + "_cm.css"] = {"k": "dir"}
            elif kind == "eacces-out":
                faults = [{"path": "tree/" + frel[:-4] + "_cm.css", "mode": "w", "n": 1, "what": "eacces"}]
            for h in healthy:
                if not tree[h].get("xref") and g.random() < 0.8:
                    _add_xref(g, tree[h])
        else:
            tree[frel] = _fault_entry(fr, kind)
        for p in range(len(healthy) + 1):
            rest = list(healthy)
            o.shuffle(rest)
            order = rest[:p] + [frel] + rest[p:]
            steps.append({"op": "dirrun", "target": ".", "settings": base_settings, "order": order, "faults": faults})
            steps.append({"op": "clean"})
        steps.pop()
        return {"prop": ID, "enum": kind, "tree": tree, "env": env, "steps": steps}

    # an index stylesheet that @imports a sibling of the tree (the import is opaque material: it is carried over as it is)
    if len(tree) >= 2 and g.random() < 0.15:
        cands = sorted(r for r in tree if tree[r].get("ast"))
        if len(cands) >= 2:
            a_, b_ = g.sample(cands, 2)
            relp = os.path.relpath(b_, os.path.dirname(a_) or ".")
            tree[a_]["ast"]["items"].insert(0, {"t": "raw", "text": g.choice(('@import "%s";', "@import url(%s);", "@import '%s' screen;")) % relp})
            tree[a_]["text"] = gen.render(tree[a_]["ast"])
            tree[a_]["imports"] = True
    # two NAMES for one file (hard links: cp -al copies, package stores, de-duplicating tools)
    if g.random() < 0.08:
        srcs = sorted(r for r in tree if tree[r].get("ast"))
        alias = g.choice(_DIRS[:4]) + "alias%d.css" % g.randrange(9)
        if srcs and alias not in tree:
            src = g.choice(srcs)
            tree[alias] = {"k": "hardlink", "to": src, "text": tree[src]["text"], "hard_alias": True}
    # free-form history
    nsteps = g.randint(2, 5)
    fault_kinds = [k for k in FAULT_KINDS if fr.random() < 0.4]
    for s in range(nsteps):
        m = g.random()
        if m < 0.55 or s == 0:
            faults = []
            for rel in sorted(tree):
                if tree[rel].get("ast") and fault_kinds and fr.random() < 0.15:
                    k = fr.choice(fault_kinds)
                    if k in ("eacces", "eio"):
                        faults.append({"path": "tree/" + rel, "mode": "r", "n": 1, "what": k})
                    elif k == "eacces-out":
                        faults.append({"path": "tree/" + rel[:-4] + "_cm.css", "mode": "w", "n": 1, "what": "eacces"})
            tgt = "."
            tops = sorted({r.split("/", 1)[0] for r in tree if "/" in r})
            if g.random() < 0.3 and tops:
                tgt = g.choice(tops)
            st = {"op": "dirrun", "target": tgt, "settings": base_settings if g.random() < 0.7 else _settings(g),
                  "order_key": o.randrange(1 << 30) if o.random() < 0.85 else None, "faults": faults}
            steps.append(st)
        elif m < 0.65:
            cands = sorted(r for r in tree if r.endswith(".css"))
            if cands:
                steps.append({"op": "filerun", "file": g.choice(cands), "settings": base_settings})
        elif m < 0.85:
            # put a fault object (or a fresh healthy sheet) somewhere
            objs = [k for k in fault_kinds if k not in ("eacces", "eio", "eacces-out")]
            if objs and g.random() < 0.7:
                k = fr.choice(objs)
                rel = g.choice(_DIRS) + g.choice(("bad.css", "bad2.css", "sub.css") + _NAMES[:3])
                if k == "out-is-dir":
                    cands = sorted(r for r in tree if tree[r].get("ast"))
                    if cands:
                        steps.append({"op": "put", "path": g.choice(cands)[:-4] + "_cm.css", "entry": {"k": "dir", "fault": k}})
                elif k == "late-unserialisable":
                    steps.append({"op": "put", "path": rel, "entry": _late_fault_entry(fr, k, base_settings)})
                else:
                    steps.append({"op": "put", "path": rel, "entry": _fault_entry(fr, k)})
            else:
                rel = g.choice(_DIRS) + g.choice(_NAMES)
                steps.append({"op": "put", "path": rel, "entry": _sheet_entry(g, base_settings, True, "n")})
        elif m < 0.93:
            cands = sorted(tree)
            if cands:
                steps.append({"op": "del", "path": g.choice(cands)})
        else:
            steps.append({"op": "clean"})
    if not any(s["op"] == "dirrun" for s in steps):
        steps.append({"op": "dirrun", "target": ".", "settings": base_settings, "order_key": o.randrange(1 << 30), "faults": []})
    # often finish with a repeat of the last directory run (idempotence) after faults stopped
    if g.random() < 0.6:
        if g.random() < 0.3:
            steps.append({"op": "mangle", "how": g.choice(("crlf", "bom", "cr"))})
        last = [s for s in steps if s["op"] == "dirrun"][-1]
        steps.append({"op": "dirrun", "target": last["target"], "settings": last["settings"],
                      "order_key": o.randrange(1 << 30), "faults": []})
    return {"prop": ID, "tree": tree, "env": env, "steps": steps, "inproc": g.random() < 0.2}


# ---------------------------------------------------------------------------


def _is_input_name(rel):
    b = rel.rsplit("/", 1)[-1]
    return b.endswith(".css") and not b.endswith("_cm.css")


def _out_of(rel):
    return rel[:-4] + "_cm.css"


def _inputs(snap, target):
    """Model of 'the stylesheets of a directory run': every path under target whose name ends
    .css but not _cm.css (regular files, links, directories alike), as the property states."""
    pre = "" if target in (".", "") else target.rstrip("/") + "/"
    return sorted(r for r in snap if r.startswith(pre) and _is_input_name(r))


def _solo(cache, snap, rel, settings, fault, env):
    """Single-file run on a copy of `rel` alone (plus its own pre-existing sibling output)."""
    ent = snap[rel]
    out_rel = _out_of(rel)
    sib = snap.get(out_rel)
    key = base.digest([ent, sib, settings, fault, rel.rsplit("/", 1)[-1]])
    if key in cache:
        return cache[key]
    root = base.new_sandbox("solo")
    try:
        name = rel.rsplit("/", 1)[-1]
        tdir = os.path.join(root, "tree")
        os.makedirs(tdir)
        _put_snap(tdir, name, ent)
        if sib is not None:
            _put_snap(tdir, _out_of(name), sib)
        faults = [{"path": "tree/" + (name if f["which"] == "in" else _out_of(name)), "mode": "r" if f["which"] == "in" else "w",
                   "n": 1, "what": f["what"]} for f in (fault or ())]
        res = base.in_fork(cli_run.cli_exec, root, "tree/" + name, settings, cwd_rel="cwd", order_key=None,
                           faults=faults, tty=env.get("tty", False), argform="abs", timeout=120)
        after = seams.snapshot(tdir)
        r = {"out": after.get(_out_of(name)), "errors": cli_run.error_paths(res["err"]), "exit": res["exit"],
             "extra": sorted(k for k in after if k not in (name, _out_of(name)))}
    finally:
        base.rm_tree(root)
    # "running the tool on that file alone": when the file is healthy the reference is the run in a CLEAN directory,
    # whatever stale or torn <name>_cm.css an earlier run left beside it (a leftover must never show through)
    if sib is not None and sib[0] == "f" and r["errors"] == [] and r["out"] is not None and not fault:
        clean = dict(snap)
        del clean[out_rel]
        r = dict(r, out=_solo(cache, clean, rel, settings, fault, env)["out"], had_stale=True)
    cache[key] = r
    return r


def _put_snap(base_dir, rel, ent):
    p = os.path.join(base_dir, rel)
    os.makedirs(os.path.dirname(p), exist_ok=True)
    if ent[0] == "f":
        with open(p, "wb") as f:
            f.write(ent[1])
    elif ent[0] == "d":
        os.makedirs(p, exist_ok=True)
    elif ent[0] == "l":
        os.symlink(ent[1], p)


def execute(trace):
    env = trace["env"]
    root = base.new_sandbox("c18")
    tdir = os.path.join(root, "tree")
    events = []
    vio = []
    stats = {}
    steps_n = 0

    def bump(k, n=1):
        stats[k] = stats.get(k, 0) + n

    def V(kind, step, **detail):
        vio.append({"kind": kind, "detail": dict(detail, step=step), "features": {"kind": kind}})

    try:
        os.makedirs(tdir)
        for rel in sorted(trace["tree"], key=lambda r: (trace["tree"][r].get("k") == "hardlink", r)):  # (second names last)
            seams.put_entry(tdir, rel, trace["tree"][rel])
            if trace["tree"][rel].get("k") == "hardlink":
                bump("hard_linked_stylesheet_names")
        original_paths = set(seams.snapshot(tdir))
        if any(v.get("heavy") for v in trace["tree"].values()):
            bump("heavy_trees")
        cache = {}
        prev_run = None
        nontrivial = False
        produced = set()  # paths (relative to tree/) that some earlier run of this history created
        for si, st in enumerate(trace["steps"]):
            op = st["op"]
            if op == "put":
                seams.remove_entry(tdir, st["path"])
                try:
                    seams.put_entry(tdir, st["path"], st["entry"])
                except (NotADirectoryError, FileExistsError, IsADirectoryError):
                    pass
                original_paths.add(st["path"])
                produced.discard(st["path"])
                events.append(("put", st["path"]))
                prev_run = None
                continue
            if op == "del":
                seams.remove_entry(tdir, st["path"])
                events.append(("del", st["path"]))
                prev_run = None
                continue
            if op == "clean":
                snap = seams.snapshot(tdir)
                for rel in sorted(snap, reverse=True):
                    if rel.endswith("_cm.css") and rel not in original_paths and snap[rel][0] == "f":
                        os.unlink(os.path.join(tdir, rel))
                events.append(("clean",))
                prev_run = None
                continue
            if op == "mangle":
                # something else re-encoded the results of earlier runs without changing their text: a checkout that converts
                # line endings, an editor that adds a byte-order mark. The next run must again leave the bytes of a solo run.
                snap = seams.snapshot(tdir)
                n_m = 0
                for rel in sorted(snap):
                    if rel in produced and rel.endswith("_cm.css") and snap[rel][0] == "f":
                        try:
                            txt = snap[rel][1].decode("utf-8")
                        except UnicodeDecodeError:
                            continue
                        new = {"crlf": txt.replace("\r\n", "\n").replace("\n", "\r\n"), "cr": txt.replace("\r\n", "\n").replace("\n", "\r"),
                               "bom": "\ufeff" + txt.lstrip("\ufeff")}[st["how"]]
                        if new != txt:
                            with open(os.path.join(tdir, rel), "wb") as fh:
                                fh.write(new.encode("utf-8"))
                            n_m += 1
                bump("outputs_reencoded_between_runs", n_m)
                events.append(("mangle", st["how"], n_m))
                prev_run = None
                continue
            if op == "filerun":
                if not os.path.lexists(os.path.join(tdir, st["file"])):
                    events.append(("filerun-skipped", st["file"]))
                    continue
                snap0 = set(seams.snapshot(tdir))
                res = base.in_fork(cli_run.cli_exec, root, "tree/" + st["file"], st["settings"], cwd_rel=env["cwd"],
                                   tty=env["tty"], argform=env["argform"] if env["argform"] != "noarg" else "abs", timeout=120)
                produced |= {k for k in seams.snapshot(tdir) if k not in snap0 and not k.endswith("cm_colors_report.html")}
                events.append(("filerun", st["file"], res["exit"], res["out"], res["io"]))
                steps_n += len(res["io"])
                prev_run = None
                continue
            assert op == "dirrun"
            target = st["target"]
            if not os.path.isdir(os.path.join(tdir, target)):
                events.append(("dirrun-skipped", target))
                continue
            before = seams.snapshot(tdir)
            inputs = _inputs(before, target)
            fault_by_path = {}
            for f in st.get("faults", ()):
                if f["path"].startswith("tree/"):
                    pth = f["path"][5:]
                    if f["mode"] == "w" and pth.endswith("_cm.css"):
                        fault_by_path.setdefault(pth[:-7] + ".css", []).append({"which": "out", "what": f["what"]})
                    else:
                        fault_by_path.setdefault(pth, []).append({"which": "in", "what": f["what"]})
            # expectation per stylesheet from single-file runs
            expect = {}
            for rel in inputs:
                ent = before[rel]
                if ent[0] == "l":
                    # a link to a stylesheet inside the tree is processed like the stylesheet itself
                    tgt = os.path.normpath(os.path.join(os.path.dirname(rel), ent[1]))
                    if before.get(tgt, ("x",))[0] == "f":
                        snap2 = dict(before)
                        snap2[rel] = before[tgt]
                        expect[rel] = _solo(cache, snap2, rel, st["settings"], fault_by_path.get(rel), env)
                        bump("symlinked_stylesheet_input")
                        continue
                if ent[0] == "f":
                    expect[rel] = _solo(cache, before, rel, st["settings"], fault_by_path.get(rel), env)
                else:
                    expect[rel] = {"out": before.get(_out_of(rel)), "errors": None, "exit": None, "extra": []}
            order_key = st.get("order_key")
            if st.get("order") is not None:
                order_key = ("list", tuple("tree/" + x for x in st["order"]))
            if trace.get("inproc"):
                # a long-lived process (watch mode, a wrapper script): all directory runs of this history share one interpreter
                res = _dir_exec(root, "tree/" + target if target != "." else "tree", st["settings"], env, order_key, st.get("faults", []))
                bump("dirruns_in_one_process")
            else:
                res = base.in_fork(_dir_exec, root, "tree/" + target if target != "." else "tree", st["settings"], env,
                                   order_key, st.get("faults", []), timeout=200)
            after = seams.snapshot(tdir)
            steps_n += len(res["io"])
            bump("dirruns")
            for kf in ("stderr_none", "in_thread", "fd_headroom"):
                if env.get(kf):
                    bump("dirruns_" + kf)
            if any(trace["tree"].get(r, {}).get("defines") for r in inputs) and any(trace["tree"].get(r, {}).get("xref") for r in inputs):
                bump("late_fault_defines_props_others_reference")
            if len(inputs) >= 3:
                bump("inputs_ge_3")
            if len(inputs) >= 2:
                nontrivial = True
            events.append(("dirrun", target, res["exit"], res["out"], res["err"], res["io"],
                           sorted((k, base.digest(v)) for k, v in after.items())))
            errs = set(res["err_paths"])
            opened = {e[1] for e in res["io"] if e[0] == "open" and "r" in e[2] and "w" not in e[2]}
            opened |= {a[1].replace("<SBX>/", "") for a in res["audit"] if a[0] == "open" and a[2] == "r"}
            order_seen = next((e[1] for e in res["io"] if e[0] == "rglob"), [])
            # -- checks
            if res["exit"] != 0:
                V("exit-status" if res["exit"] != "raised" else "run-stopped", si, exit=res["exit"], exc=res.get("exc"))
            for rel in inputs:
                ent = before[rel]
                exp = expect[rel]
                got = after.get(_out_of(rel))
                kindtag = _entry_fault(trace, st, rel, ent)
                if kindtag:
                    bump("fault:" + kindtag)
                    nontrivial = True
                    if order_seen:
                        ins = [x for x in order_seen if _is_input_name(x)]
                        pos = ins.index("tree/" + rel) if "tree/" + rel in ins else -1
                        if pos == 0:
                            bump("fault_first")
                        elif pos == len(ins) - 1:
                            bump("fault_last")
                        elif pos > 0:
                            bump("fault_middle")
                # judged from the bytes, not from what a single-file run of the same code says: an entry that is not a
                # UTF-8 text file at all (undecodable bytes, a directory, a link to nowhere) is "reported and skipped"
                bad_kind = None
                if ent[0] == "f":
                    try:
                        ent[1].decode("utf-8-sig")
                    except UnicodeDecodeError:
                        bad_kind = "undecodable"
                elif ent[0] == "d":
                    bad_kind = "directory"
                elif ent[0] == "l" and before.get(os.path.normpath(os.path.join(os.path.dirname(rel), ent[1]))) is None \
                        and not os.path.exists(os.path.join(tdir, os.path.dirname(rel), ent[1])):
                    bad_kind = "dangling-link"
                if bad_kind and not _entry_fault_is_io(st, rel):
                    bump("intrinsically_bad_entries_judged")
                    if not env.get("stderr_none") and ("<SBX>/tree/" + rel) not in errs:
                        V("bad-file-not-reported", si, file=rel, what=bad_kind, stderr_paths=sorted(errs))
                    if got is not None and got != before.get(_out_of(rel)):
                        V("bad-file-not-skipped", si, file=rel, what=bad_kind, output=_show(got))
                if trace["tree"].get(rel, {}).get("xref"):
                    bump("cross_file_var_ref")
                if trace["tree"].get(rel, {}).get("imports"):
                    bump("imports_of_sibling_stylesheets")
                if trace["tree"].get(rel, {}).get("duplicate_of"):
                    bump("duplicate_content_files")
                if trace["tree"].get(rel, {}).get("same_alpha"):
                    bump("same_translucent_text_in_several_files")
                if trace["tree"].get(rel, {}).get("same_colour_annotated"):
                    bump("same_colour_with_annotated_value_in_several_files")
                if trace["tree"].get(rel, {}).get("text", "").startswith("\ufeff"):
                    bump("bom_files")
                if before.get(_out_of(rel)) is not None:
                    bump("stale_output_present")
                bump("outputs_compared")
                if got != exp["out"]:
                    healthy = ent[0] == "f" and exp["errors"] == [] and exp["out"] is not None
                    kind = "healthy-file-skipped" if (healthy and got == before.get(_out_of(rel)) and ("tree/" + rel) not in opened) \
                        else "output-differs-from-single-run"
                    V(kind, si, file=rel, expected=_show(exp["out"]), got=_show(got), settings=st["settings"])
                if ent[0] == "f":
                    if ("tree/" + rel) not in opened:
                        V("run-stopped", si, file=rel, note="input never opened during the directory run",
                          order=order_seen)
                    if exp["errors"] and not env.get("stderr_none"):  # (with stderr closed there is nowhere to report to)
                        if ("<SBX>/tree/" + rel) not in errs:
                            V("bad-file-not-reported", si, file=rel, stderr_paths=sorted(errs))
            # "files ending in _cm.css are never taken as inputs": taken as an input = counted among the processed files,
            # reported as failing, or given an output of its own. (Merely READING an existing output - to skip an identical
            # rewrite, say - is not; it is counted as a probe only. Benign variant b13.)
            for p in sorted(opened):
                if p.endswith("_cm.css") or (p.startswith("tree/") and p[5:] in produced):
                    bump("existing_output_read")
            n_announced = cli_run.parse_stdout(res["out"]).get("processing")
            # the most generous count of "stylesheets under the target": any letter case of the suffix, minus outputs
            pre_t = "" if target in (".", "") else target.rstrip("/") + "/"
            n_model = len([r for r in before if r.startswith(pre_t) and r.lower().endswith(".css")
                           and not r.lower().endswith("_cm.css") and r not in produced])
            if isinstance(n_announced, int) and n_announced > n_model:
                V("output-consumed", si, announced=n_announced, stylesheets=n_model,
                  note="more files processed than there are stylesheets under the target: an output was taken as an input")
            for ep in sorted(errs):
                relp = ep[len("<SBX>/tree/"):] if ep.startswith("<SBX>/tree/") else None
                if relp and (relp.endswith("_cm.css") or relp in produced) and relp not in inputs:
                    V("output-consumed", si, path=relp, note="an output file was processed (and reported as failing)")
            for rel in sorted(before):
                if (rel.endswith("_cm.css") or rel in produced) and rel not in inputs and rel.endswith(".css"):
                    o2 = _out_of(rel)
                    if after.get(o2) != before.get(o2):
                        V("output-consumed", si, path=rel, output=o2, note="an output of an output appeared or changed")
            produced |= {k for k in after if k not in before and not k.endswith("cm_colors_report.html")}
            for rel in after:
                if rel.endswith("_cm_cm.css") and rel not in before:
                    V("output-consumed", si, path=rel, note="an output of an output appeared")
            if any(r.endswith("_cm.css") and before[r][0] == "f" for r in before):
                bump("cm_named_input_present")
            # idempotence: same directory run again, no faults in either -> identical outputs
            cur = (target, base.canon(st["settings"]))
            if prev_run and prev_run[0] == cur and not st.get("faults") and not prev_run[2]:
                bump("repeat_run_checked")
                a = {k: v for k, v in after.items() if not k.endswith("cm_colors_report.html")}
                if a != prev_run[1]:
                    diff = sorted(k for k in set(a) | set(prev_run[1]) if a.get(k) != prev_run[1].get(k))
                    V("not-idempotent", si, files=diff)
            prev_run = (cur, {k: v for k, v in after.items() if not k.endswith("cm_colors_report.html")}, bool(st.get("faults")))
        if trace.get("enum"):
            bump("enum_runs")
    finally:
        base.rm_tree(root)
    return {"violations": vio, "digest": base.digest(events), "nontrivial": nontrivial, "stats": stats, "steps": steps_n}


def _entry_fault_is_io(st, rel):
    return any(f["path"] in ("tree/" + rel, "tree/" + _out_of(rel)) for f in st.get("faults", ()))


def _entry_fault(trace, st, rel, ent):
    for f in st.get("faults", ()):
        if f["path"] == "tree/" + rel:
            return f["what"]
        if f["path"] == "tree/" + _out_of(rel) and f["mode"] == "w":
            return "eacces-out"
    e = trace["tree"].get(rel)
    for s in trace["steps"]:
        if s["op"] == "put" and s["path"] == rel:
            e = s["entry"]
    if e and e.get("fault") and e["fault"] not in ("eacces", "eio"):
        return e["fault"]
    return None


def _show(ent):
    if ent is None:
        return None
    if ent[0] == "f":
        b = ent[1]
        return b[:400].decode("utf-8", "replace") + ("..." if len(b) > 400 else "")
    return list(ent)


_FD_LIMIT = None


def _fd_limit(headroom):
    """The descriptor limit that leaves `headroom` free slots above what this process holds at its FIRST directory run
    (fixed for the life of the process: descriptors a run fails to give back eat into it)."""
    global _FD_LIMIT
    if _FD_LIMIT is None:
        free, lim = 0, 0
        while free < headroom:
            try:
                os.fstat(lim)
            except OSError:
                free += 1
            lim += 1
        _FD_LIMIT = lim
    return _FD_LIMIT


def _dir_exec(root, target_rel, settings, env, order_key, faults):
    ok = order_key
    if isinstance(order_key, tuple) and order_key[0] == "list":
        ok = _ListOrder(order_key[1])
    old = None
    if env.get("fd_headroom"):
        import resource

        old = resource.getrlimit(resource.RLIMIT_NOFILE)
        resource.setrlimit(resource.RLIMIT_NOFILE, (min(_fd_limit(env["fd_headroom"]), old[0]), old[1]))
    try:
        res = cli_run.cli_exec(root, target_rel, settings, cwd_rel=env["cwd"], order_key=ok, faults=faults,
                               tty=env["tty"], argform=env["argform"], in_thread=bool(env.get("in_thread")),
                               stderr_none=bool(env.get("stderr_none")))
    finally:
        if old is not None:
            resource.setrlimit(resource.RLIMIT_NOFILE, old)
    return res


class _ListOrder:
    """Explicit traversal order: listed paths first in the given order, the rest after, sorted."""

    def __init__(self, paths):
        self.idx = {p: i for i, p in enumerate(paths)}

    def rank(self, name):
        return "%06d" % self.idx.get(name, 999999)


# ---------------------------------------------------------------------------


def shrink(trace):
    """Candidates for minimisation, roughly from big cuts to small ones."""
    import copy

    steps = trace["steps"]
    if trace.get("inproc"):
        t = copy.deepcopy(trace)
        t["inproc"] = False
        yield t
    # drop steps (keep at least one dirrun)
    for i in range(len(steps)):
        t = copy.deepcopy(trace)
        del t["steps"][i]
        if any(s["op"] == "dirrun" for s in t["steps"]):
            yield t
    # drop files
    for rel in sorted(trace["tree"]):
        t = copy.deepcopy(trace)
        del t["tree"][rel]
        for s in t["steps"]:
            if s.get("order"):
                s["order"] = [x for x in s["order"] if x != rel]
            if s.get("faults"):
                s["faults"] = [f for f in s["faults"] if f["path"] != "tree/" + rel]
        if t["tree"]:
            yield t
    # drop faults, simplify settings / env / order
    for i, s in enumerate(steps):
        if s.get("faults"):
            for j in range(len(s["faults"])):
                t = copy.deepcopy(trace)
                del t["steps"][i]["faults"][j]
                yield t
        if s["op"] == "dirrun" and s.get("order_key") is not None:
            t = copy.deepcopy(trace)
            t["steps"][i]["order_key"] = None
            yield t
        if s.get("settings"):
            for k in list(s["settings"]):
                t = copy.deepcopy(trace)
                del t["steps"][i]["settings"][k]
                yield t
    if trace["env"] != {"cwd": "cwd", "tty": False, "argform": "abs"}:
        t = copy.deepcopy(trace)
        t["env"] = {"cwd": "cwd", "tty": False, "argform": "abs"}
        yield t
    # shrink stylesheets: drop top-level items, then declarations
    for rel in sorted(trace["tree"]):
        e = trace["tree"][rel]
        if not e.get("ast"):
            continue
        for t2 in shrink_sheet(e["ast"]):
            t = copy.deepcopy(trace)
            t["tree"][rel]["ast"] = t2
            t["tree"][rel]["text"] = gen.render(t2)
            yield t


def shrink_sheet(ast):
    import copy

    def item_lists(a, path=()):
        yield path, a["items"]
        for i, it in enumerate(a["items"]):
            if it["t"] == "at":
                yield from item_lists(it, path + (i,))

    def at(a, path):
        for i in path:
            a = a["items"][i]
        return a

    for path, items in list(item_lists(ast)):
        for i in range(len(items)):
            t = copy.deepcopy(ast)
            del at(t, path)["items"][i]
            yield t
            if items[i]["t"] == "at":
                # unwrap one nesting level
                t = copy.deepcopy(ast)
                holder = at(t, path)["items"]
                holder[i:i + 1] = holder[i]["items"]
                yield t
            if items[i]["t"] == "rule":
                for j in range(len(items[i]["decls"])):
                    t = copy.deepcopy(ast)
                    del at(t, path)["items"][i]["decls"][j]
                    yield t
                for j, d in enumerate(items[i]["decls"]):
                    if d.get("imp"):
                        t = copy.deepcopy(ast)
                        at(t, path)["items"][i]["decls"][j]["imp"] = ""
                        yield t
    for k in ("crlf", "bom", "charset"):
        if ast.get(k):
            t = copy.deepcopy(ast)
            t[k] = False
            yield t
    if ast.get("style") != "compact":
        t = copy.deepcopy(ast)
        t["style"] = "compact"
        yield t


def sample_view(trace, res):
    return {"env": trace["env"], "enum": trace.get("enum"),
            "tree": {k: (v.get("fault") or ("stylesheet %d bytes" % len(v.get("text", "")) if v["k"] == "css" else v["k"]))
                     for k, v in trace["tree"].items()},
            "steps": [{k: v for k, v in s.items() if k != "entry"} for s in trace["steps"]],
            "digest": res["digest"], "stats": res["stats"]}
