"""Batch driver: seeded runs on a fork pool, minimisation, replay files, known findings, evidence.

Exit codes: 0 held (KNOWN-FINDING lines allowed), 1 reproduced violation not listed as known,
2 harness error (HARNESS-ERROR line, never a VIOLATION line).
"""
import concurrent.futures as cf
import faulthandler
import hashlib
import json
import multiprocessing
import os
import subprocess
import sys
import time
import traceback

from . import base

KNOWN_FILE = os.path.join(base.VERIF_DIR, "known_findings.json")
REPLAY_DIR = os.path.join(base.VERIF_DIR, "replays")
EVIDENCE_DIR = os.path.join(base.VERIF_DIR, "evidence")

COMPONENTS = {
    "real": ["cm_colors.* imported from /repo/src (working tree)", "tinycss2", "click", "rich", "CPython 3.12 stdlib",
             "kernel tmpfs file system under a private sandbox directory", "threads (real threading.Thread objects)"],
    "stub": ["sys.stdout/sys.stderr (recording StringIO with configurable isatty)", "terminal environment (fixed COLUMNS/LINES/TERM)",
             "open() in cm_colors.cli.main / cli.html_report / core.visualiser (fault-injecting shim over the real open)",
             "cm_colors.cli.main.Path (PosixPath subclass with seeded traversal order) and os.scandir/os.listdir order",
             "process crash (SimCrash BaseException raised at an I/O seam)", "thread scheduling (baton passing at sys.settrace line events)",
             "console entry point (click command invoked in-process with standalone_mode=False)"],
}


def load_props():
    from . import p_c18

    mods = {"C18": p_c18}
    for name in ("p_c09", "p_c08", "p_c12", "p_c17", "p_c15"):
        try:
            m = __import__("verif_sim." + name, fromlist=["x"])
            mods[m.ID] = m
        except ImportError:
            pass
    return mods


# ---------------------------------------------------------------------------
# worker side


def _worker_init(sbx_base):
    base.set_sandbox_base(sbx_base)
    preload()


def preload():
    """Import every cm_colors module (incl. the lazily imported ones) so that no import, and no
    import lock, happens inside a simulated run; never *call* anything here."""
    import importlib

    for m in ("cm_colors", "cm_colors.core.colors", "cm_colors.core.cm_colors", "cm_colors.core.optimisation",
              "cm_colors.core.visualiser", "cm_colors.core.color_parser", "cm_colors.core.conversions",
              "cm_colors.core.contrast", "cm_colors.core.color_metrics", "cm_colors.core.named_colors",
              "cm_colors.cli.main", "cm_colors.cli.html_report"):
        importlib.import_module(m)
    import rich.console, rich.table, rich.panel, rich.text, rich.style, rich.layout  # noqa
    import tinycss2.color3  # noqa
    base.check_repo_import()


def exec_trace(mod, trace, timeout=None):
    """Execute one explicit trace in a throw-away fork. Returns the result dict."""
    return base.in_fork(mod.execute, trace, timeout=timeout or getattr(mod, "RUN_TIMEOUT", 120.0))


def _run_chunk(prop_id, verif_seed, idxs, tier, want_samples):
    mod = load_props()[prop_id]
    out = []
    for i in idxs:
        rseed = base.run_seed(prop_id, verif_seed, i)
        rec = {"i": i}
        try:
            trace = mod.generate(rseed, tier, i)
            trace["run"] = i
            trace["verif_seed"] = verif_seed
            res = exec_trace(mod, trace)
            rec.update(digest=res["digest"], nontrivial=res.get("nontrivial", False), stats=res.get("stats", {}),
                       steps=res.get("steps", 0), skipped=res.get("skipped", 0), measures=res.get("measures", {}))
            if res["violations"]:
                rec["violations"] = res["violations"]
                rec["trace"] = res.get("explicit") or trace
            elif i in want_samples:
                rec["sample"] = mod.sample_view(trace, res) if hasattr(mod, "sample_view") else trace
        except base.HarnessError as e:
            rec["harness_error"] = f"{type(e).__name__}: {e}"[:2000]
        except Exception:
            rec["harness_error"] = traceback.format_exc()[-2000:]
        out.append(rec)
    return out


# ---------------------------------------------------------------------------
# known findings


def load_known():
    if not os.path.exists(KNOWN_FILE):
        return []
    with open(KNOWN_FILE) as f:
        return json.load(f).get("findings", [])


def finding_matches(finding, prop_id, violation):
    if finding.get("property") != prop_id:
        return False
    if finding.get("kind") and violation["kind"] not in _as_list(finding["kind"]):
        return False
    feats = violation.get("features", {})
    for k, want in finding.get("match", {}).items():
        have = feats.get(k)
        if isinstance(want, list):
            if have not in want:
                return False
        elif have != want:
            return False
    return True


def _as_list(x):
    return x if isinstance(x, list) else [x]


# ---------------------------------------------------------------------------
# minimisation (greedy over property-specific candidates, same violation kind must persist)


def minimise(mod, trace, kind, budget_s=60.0, same=None):
    t0 = time.monotonic()
    best = trace
    tried = 0

    def still_fails(t):
        nonlocal tried
        tried += 1
        try:
            res = exec_trace(mod, t)
        except base.HarnessError:
            return False
        for v in res["violations"]:
            if v["kind"] == kind and (same is None or same(v)):
                return True
        return False

    progress = True
    while progress and time.monotonic() - t0 < budget_s:
        progress = False
        for cand in mod.shrink(best):
            if time.monotonic() - t0 >= budget_s:
                break
            if still_fails(cand):
                best = cand
                progress = True
                break
    return best, tried


# ---------------------------------------------------------------------------
# replay


def write_replay(prop_id, trace, violation, original=None, name=None):
    os.makedirs(REPLAY_DIR, exist_ok=True)
    name = name or f"{prop_id}-{trace.get('verif_seed', 0)}-{trace.get('run', 0)}-{violation['kind']}.json"
    path = os.path.join(REPLAY_DIR, name)
    doc = {"property": prop_id, "kind": violation["kind"], "violation": violation, "trace": trace}
    if original is not None and original != trace:
        doc["original"] = original
    with open(path, "w") as f:
        json.dump(doc, f, indent=1, sort_keys=True, default=base._default)
    return path


def replay_file(mod, path, quiet=False):
    """Execute the trace of a replay file (no PRNG involved). Returns (violations, doc)."""
    with open(path) as f:
        doc = json.load(f)
    res = exec_trace(mod, doc["trace"])
    return res["violations"], doc, res


def replay_in_fresh_process(prop_id, path, kind):
    """The replay must reproduce in a fresh interpreter: exit 1 and the same kind."""
    env = dict(os.environ)
    p = subprocess.run([sys.executable, "-m", "verif_sim.main", prop_id, "--replay", path], env=env,
                       capture_output=True, text=True, timeout=600, cwd=base.VERIF_DIR)
    exact = p.returncode == 1 and f"VIOLATION property={prop_id}" in p.stdout and f"kind={kind}" in p.stdout
    # a replay that fails with another violation kind of the same property is still a reproduced violation
    # (reported under the kind seen in the replay); anything else is "did not reproduce"
    ok = p.returncode == 1 and f"VIOLATION property={prop_id}" in p.stdout
    return ok, p.stdout[-2000:] + p.stderr[-2000:]


# ---------------------------------------------------------------------------
# main batch


def run_check(prop_id, tier, verif_seed, budget_s=None, workers=None, max_runs=None, out=sys.stdout):
    mods = load_props()
    mod = mods[prop_id]
    t_start = time.monotonic()
    workers = workers or min(16, os.cpu_count() or 1)
    budget_s = budget_s if budget_s is not None else mod.BUDGET[tier]
    chunk = getattr(mod, "CHUNK", 4)
    harness_errors = []
    lines = []

    def say(s):
        print(s, file=out, flush=True)

    say(f"VERIF_SEED={verif_seed} property={prop_id} tier={tier} workers={workers} budget_s={budget_s} "
        f"PYTHONHASHSEED={os.environ.get('PYTHONHASHSEED')}")
    preload()

    # 1. known findings / fixed entries of this property are replayed first
    known = [k for k in load_known() if k.get("property") == prop_id]
    known_open = [k for k in known if k.get("status") == "open"]
    violations_reported = []
    known_lines = []
    known_state = {}
    for k in known:
        rp = os.path.join(base.VERIF_DIR, k["replay"]) if k.get("replay") else None
        if not rp or not os.path.exists(rp):
            harness_errors.append(f"known finding {k.get('id')} has no replay file")
            continue
        try:
            vio, doc, _ = replay_file(mod, rp)
        except base.HarnessError as e:
            harness_errors.append(f"replay of known finding {k.get('id')}: {e}")
            continue
        hit = [v for v in vio if finding_matches(k, prop_id, v)] if k.get("status") == "open" else \
              [v for v in vio if v["kind"] in _as_list(k.get("kind", v["kind"]))]
        if k.get("status") == "open":
            if hit:
                known_lines.append(f"KNOWN-FINDING: property={prop_id} {k['id']}: {k['what']}")
                known_state[k["id"]] = "reproduces"
            else:
                known_state[k["id"]] = "known_finding_gone"
            # any other violation in that replay is judged like a generated one
            for v in vio:
                if not any(finding_matches(kk, prop_id, v) for kk in known_open):
                    violations_reported.append((v, doc["trace"], rp))
        else:  # fixed: suppresses nothing; if it fails again it is a violation
            if hit:
                violations_reported.append((hit[0], doc["trace"], rp))
                known_state[k["id"]] = "fixed-but-back"
            else:
                known_state[k["id"]] = "fixed-holds"

    # 2. self-test: determinism of a few runs (same trace twice -> same digest)
    det_checked = 0
    try:
        for i in range(getattr(mod, "SELFTEST_RUNS", 2)):
            rseed = base.run_seed(prop_id, verif_seed, i)
            tr = mod.generate(rseed, tier, i)
            tr2 = mod.generate(rseed, tier, i)
            if base.canon(tr) != base.canon(tr2):
                harness_errors.append(f"generator not deterministic for run {i}")
            d1 = exec_trace(mod, tr)["digest"]
            d2 = exec_trace(mod, tr)["digest"]
            if d1 != d2:
                harness_errors.append(f"run {i} not deterministic: digests {d1} != {d2}")
            det_checked += 1
    except base.HarnessError as e:
        harness_errors.append(f"determinism self-test: {e}")

    # 3. seeded batch
    sbx = base.sandbox_base()
    os.makedirs(sbx, exist_ok=True)
    ctx = multiprocessing.get_context("fork")
    recs = []
    want_samples = {0, 1, 2}
    next_idx = 0
    # the budget is for the seeded batch itself: the known-finding replays and the determinism self-test that ran
    # before it (slow on a loaded machine) must not eat it, or a busy machine would end with "no run completed"
    deadline = time.monotonic() + budget_s
    with cf.ProcessPoolExecutor(max_workers=workers, mp_context=ctx, initializer=_worker_init, initargs=(sbx,)) as ex:
        pending = set()

        def submit():
            nonlocal next_idx
            idxs = list(range(next_idx, next_idx + chunk))
            if max_runs is not None:
                idxs = [i for i in idxs if i < max_runs]
            next_idx += chunk
            if idxs:
                pending.add(ex.submit(_run_chunk, prop_id, verif_seed, idxs, tier, want_samples))

        def more():
            return time.monotonic() < deadline and (max_runs is None or next_idx < max_runs)

        while more() and len(pending) < 2 * workers:
            submit()
        while pending:
            done, pending2 = cf.wait(pending, timeout=5.0, return_when=cf.FIRST_COMPLETED)
            pending = set(pending2)
            for fu in done:
                try:
                    recs.extend(fu.result())
                except Exception as e:
                    harness_errors.append(f"worker chunk failed: {type(e).__name__}: {e}")
            while more() and len(pending) < 2 * workers:
                submit()
            if time.monotonic() > deadline + 300:
                harness_errors.append("batch did not drain within 300 s after the budget")
                for fu in pending:
                    fu.cancel()
                break
    recs.sort(key=lambda r: r["i"])

    # 4. aggregate
    stats = {}
    digests = set()
    nontrivial = set()
    steps = 0
    skipped = 0
    samples = []
    failing = []
    measures = {}
    for r in recs:
        if "harness_error" in r:
            harness_errors.append(f"run {r['i']}: {r['harness_error']}")
            continue
        digests.add(r["digest"])
        if r["nontrivial"]:
            nontrivial.add(r["digest"])
        steps += r.get("steps", 0)
        skipped += r.get("skipped", 0)
        for k, v in r["stats"].items():
            stats[k] = stats.get(k, 0) + v
        for k, v in r.get("measures", {}).items():
            measures.setdefault(k, set()).add(v)
        if "sample" in r:
            samples.append(r["sample"])
        if "violations" in r:
            failing.append(r)

    # 5. classify violations: known-finding predicates first, then minimise + replay the unknown ones
    known_hits = {}
    unknown = []
    for r in failing:
        for v in r["violations"]:
            ks = [k for k in known_open if finding_matches(k, prop_id, v)]
            if ks:
                known_hits[ks[0]["id"]] = known_hits.get(ks[0]["id"], 0) + 1
            else:
                unknown.append((r, v))
    seen_kinds = {}
    max_min = int(os.environ.get("VERIF_MAX_MINIMISE", "3"))
    for r, v in unknown:
        key = (v["kind"], base.canon(v.get("features", {})))
        seen_kinds[key] = seen_kinds.get(key, 0) + 1
        if seen_kinds[key] > 1 or len(violations_reported) >= max_min:
            continue
        trace = r["trace"]
        try:
            small, tried = minimise(mod, trace, v["kind"], budget_s=float(os.environ.get("VERIF_MINIMISE_S", "60")))
            res = exec_trace(mod, small)
            vv = [x for x in res["violations"] if x["kind"] == v["kind"]]
            if not vv:
                small, vv = trace, [v]
            # after minimisation the violation may turn out to be a known finding
            if any(finding_matches(k, prop_id, vv[0]) for k in known_open) and not any(
                    finding_matches(k, prop_id, v) for k in known_open):
                small, vv = trace, [v]
            path = write_replay(prop_id, small, vv[0], original=trace,
                                name=f"{prop_id}-{verif_seed}-{r['i']}-{v['kind']}-{len(violations_reported)}.json")
            ok, txt = replay_in_fresh_process(prop_id, path, v["kind"])
            if not ok and small is not trace:
                # the minimised trace does not fail in a fresh process: fall back to the trace as generated
                small, vv = trace, [v]
                path = write_replay(prop_id, trace, v, name=f"{prop_id}-{verif_seed}-{r['i']}-{v['kind']}-{len(violations_reported)}.json")
                ok, txt = replay_in_fresh_process(prop_id, path, v["kind"])
            if not ok:
                harness_errors.append(f"violation {v['kind']} of run {r['i']} did not reproduce from {path} (flaky): {txt[-600:]}")
                continue
            violations_reported.append((vv[0], small, path))
        except base.HarnessError as e:
            harness_errors.append(f"minimise/replay of run {r['i']}: {e}")

    wall = time.monotonic() - t_start
    n_eval = len([r for r in recs if "digest" in r])

    # 6. evidence
    evidence = {
        "property_id": prop_id,
        "tier": tier,
        "seed": verif_seed,
        "level": mod.LEVEL,
        "coverage": {
            "evaluations": n_eval,
            "distinct_nontrivial": len(nontrivial),
            "rule": mod.RULE,
            "samples": samples[:3] or [{"note": "no sample captured"}],
            "distinct_run_digests": len(digests),
            "exhaustive": False,
        },
        "assumptions": list(getattr(mod, "ASSUMPTIONS", [])),
        "wall_s": round(wall, 2),
        "violations": len(violations_reported),
        "seeds": {"VERIF_SEED": verif_seed, "first_run": 0, "last_run": (recs[-1]["i"] if recs else -1),
                  "PYTHONHASHSEED": os.environ.get("PYTHONHASHSEED")},
        "runs_per_hour": int(n_eval / max(wall, 1e-9) * 3600),
        "logical_steps": steps,
        "simulated_time": "n/a - cm-colors reads no clock and has no timers on the pinned tree (probe clock_reads_by_cm_colors = 0; a simulated clock whose reads jump forward is installed in C15 windows to catch code that starts to); time is counted in logical steps (I/O events, scheduler steps)",
        "probe_hits_and_faults_fired": dict(sorted(stats.items())),
        "skipped_boundary": skipped,
        "distinct_by_measure": {k: len(v) for k, v in sorted(measures.items())},
        "known_findings_hit_in_generated_runs": known_hits,
        "known_findings_replayed": known_state,
        "unknown_violation_kinds": {f"{k[0]}": n for k, n in seen_kinds.items()},
        "determinism_selftest_runs": det_checked,
        "components": COMPONENTS,
        "harness_errors": harness_errors[:20],
        "workers": workers,
    }
    zero = [k for k in getattr(mod, "PROBES", []) if stats.get(k, 0) == 0]
    if zero:
        evidence["probes_at_zero"] = zero
        if tier == "thorough":
            say("WARNING probes stuck at zero: " + ", ".join(zero))
    os.makedirs(EVIDENCE_DIR, exist_ok=True)
    with open(os.path.join(EVIDENCE_DIR, f"{prop_id}.json"), "w") as f:
        json.dump(evidence, f, indent=1, sort_keys=True, default=base._default)

    # 7. verdict
    for ln in known_lines:
        say(ln)
    say(f"runs={n_eval} distinct_digests={len(digests)} nontrivial={len(nontrivial)} steps={steps} wall_s={wall:.1f} "
        f"known_hits={known_hits} unknown_kinds={ {k[0]: n for k, n in seen_kinds.items()} }")
    base.rm_tree(sbx)
    if harness_errors:
        for h in harness_errors[:10]:
            say("HARNESS-ERROR " + h.replace("\n", " | ")[:1500])
    if violations_reported:
        for v, tr, path in violations_reported:
            say(f"VIOLATION property={prop_id} replay={path} kind={v['kind']} detail={json.dumps(v.get('detail'), default=str)[:600]}")
        return 1
    if harness_errors or n_eval == 0:
        if n_eval == 0 and not harness_errors:
            say("HARNESS-ERROR no run completed")
        return 2
    say(f"OK property={prop_id} held on {n_eval} simulated runs")
    return 0


def run_replay(prop_id, path, out=sys.stdout):
    mod = load_props()[prop_id]
    preload()
    vio, doc, res = replay_file(mod, path)
    want = doc.get("kind")
    known_open = [k for k in load_known() if k.get("property") == prop_id and k.get("status") == "open"]
    rc = 0
    for v in vio:
        tag = "VIOLATION"
        print(f"{tag} property={prop_id} replay={path} kind={v['kind']} detail={json.dumps(v.get('detail'), default=str)[:1500]}", file=out)
        for k in known_open:
            if finding_matches(k, prop_id, v):
                print(f"  (matches known finding {k['id']})", file=out)
        rc = 1
    if not vio:
        print(f"replay of {path}: no violation (recorded kind was {want})", file=out)
    print(f"digest={res['digest']}", file=out)
    base.rm_tree(base.sandbox_base())
    return rc
