"""Sensitivity self-test (DESIGN 7.2): one-hunk mutants of /repo/src applied to a scratch copy.

For each mutant: copy /repo/src to /dev/shm, apply the textual replacement, run the property's
check against the copy (VERIF_REPO_SRC) and expect exit 1 with a VIOLATION line; also run the
repository's own test suite against the copy to record whether the 125 tests notice.
Results: /verif/evidence/selftest-mutants.json.  Not part of the registered per-property
commands (those judge /repo only).
"""
import json
import os
import shutil
import subprocess
import sys
import time

from . import base

M = []


def mut(mid, prop, path, old, new, note=""):
    M.append({"id": mid, "prop": prop, "path": path, "old": old, "new": new, "note": note})


CLI = "cm_colors/cli/main.py"
BULK = "cm_colors/core/cm_colors.py"
COL = "cm_colors/core/colors.py"
OPT = "cm_colors/core/optimisation.py"
PAR = "cm_colors/core/color_parser.py"

# ---- C08
mut("m08a-nested-not-written", "C08", CLI, "                node.content = new_content\n", "                pass\n", "edits of rules nested in @media/@supports are not written back")
mut("m08b-premium-classified-at-4.5", "C08", CLI, "target_ratio = 7.0 if premium else 4.5", "target_ratio = 4.5", "")
mut("m08c-default-bg-ignored", "C08", CLI, "extract_color_from_decl(bg_decl) if bg_decl else default_bg", 'extract_color_from_decl(bg_decl) if bg_decl else "white"', "")
mut("m08d-report-shows-original", "C08", CLI, '"tuned_text": tuned_rgb,', '"tuned_text": text_color_str,', "")
mut("m08e-failed-also-tuned", "C08", CLI, '                                stats["failed"] += 1\n                                stats["failed_details"].append(\n                                    {\n                                        "file": file_path.name,\n                                        "selector": selector,\n                                        "text": text_color_str,\n                                        "bg": bg_color_str,\n                                        "contrast": contrast,',
    '                                stats["failed"] += 1\n                                stats["tuned"] += 1\n                                stats["failed_details"].append(\n                                    {\n                                        "file": file_path.name,\n                                        "selector": selector,\n                                        "text": text_color_str,\n                                        "bg": bg_color_str,\n                                        "contrast": contrast,', "")
mut("m08f-mode-not-forwarded", "C08", CLI, "tuned_rgb, is_accessible = pair.make_readable(\n                                mode=mode, very_readable=premium\n                            )",
    "tuned_rgb, is_accessible = pair.make_readable(\n                                very_readable=premium\n                            )", "")
mut("m08g-last-rule-of-media-skipped", "C08", CLI, "                process_nodes_recursive(\n                    nested_rules,", "                process_nodes_recursive(\n                    nested_rules[:-1],", "")
# ---- C09
mut("m09a-overwrite-input", "C09", CLI, 'with open(output_path, "w", encoding="utf-8") as f:', 'with open(file_path, "w", encoding="utf-8") as f:', "")
mut("m09b-comments-dropped", "C09", CLI, "            rules = tinycss2.parse_stylesheet(\n                css_content, skip_whitespace=False, skip_comments=False\n            )",
    "            rules = tinycss2.parse_stylesheet(\n                css_content, skip_whitespace=False, skip_comments=True\n            )", "")
mut("m09c-nested-atrules-dropped", "C09", CLI, "nested_css = tinycss2.serialize(nested_rules)", "nested_css = tinycss2.serialize([r for r in nested_rules if not isinstance(r, AtRule)])", "")
mut("m09d-bak-file", "C09", CLI, "            rules = tinycss2.parse_stylesheet(\n                css_content,", '            Path(str(file_path) + ".bak").write_text(css_content)\n            rules = tinycss2.parse_stylesheet(\n                css_content,', "")
mut("m09e-input-opened-rplus", "C09", CLI, 'with open(file_path, "r", encoding="utf-8-sig") as f:', 'with open(file_path, "r+", encoding="utf-8-sig") as f:', "")
mut("m09f-important-lost", "C09", CLI, "def update_decl_value(decl, new_value_str):\n", "def update_decl_value(decl, new_value_str):\n    decl.important = False\n", "rewriting a declaration drops its !important")
mut("m09g-tempfile-left-behind", "C09", CLI, '            with open(output_path, "w", encoding="utf-8") as f:\n                f.write(tinycss2.serialize(rules))',
    '            import tempfile, os as _os\n            _fd, _tmp = tempfile.mkstemp(suffix=".css")\n            _os.close(_fd)\n            with open(output_path, "w", encoding="utf-8") as f:\n                f.write(tinycss2.serialize(rules))', "a temp file outside the tree is created per file")
# ---- C12
mut("m12a-large-sticky", "C12", BULK, "    for i, item in enumerate(pairs):\n", "    large = False\n    for i, item in enumerate(pairs):\n", "")
M[-1]["extra"] = [("            text, bg = item\n            large = False\n", "            text, bg = item\n")]
mut("m12b-break-on-invalid", "C12", BULK, '            results.append((text, "invalid color"))\n            continue', '            results.append((text, "invalid color"))\n            break', "")
mut("m12c-status-from-original", "C12", BULK, "new_pair = ColorPair(tuned_color, bg, large)", "new_pair = ColorPair(text, bg, large)", "")
mut("m12d-mode-not-forwarded", "C12", BULK, "            mode=mode, very_readable=very_readable\n", "            very_readable=very_readable\n", "")
mut("m12e-results-prepended", "C12", BULK, "            results.append((tuned_color, current_readability))", "            results.insert(0, (tuned_color, current_readability))", "")
mut("m12f-status-ignores-large", "C12", BULK, "new_pair = ColorPair(tuned_color, bg, large)", "new_pair = ColorPair(tuned_color, bg)", "")
# ---- C15
mut("m15a-cache-without-settings", "C15", COL, "        result = check_and_fix_contrast(\n            self.text._rgb, self.bg._rgb, self.large, mode, premium\n        )",
    "        _k = (self.text._rgb, self.bg._rgb)\n        if _k not in _CACHE:\n            _CACHE[_k] = check_and_fix_contrast(\n                self.text._rgb, self.bg._rgb, self.large, mode, premium\n            )\n        result = _CACHE[_k]", "memoisation keyed on part of the arguments")
M[-1]["extra"] = [("class Color:\n", "_CACHE = {}\n\n\nclass Color:\n")]
mut("m15b-growing-schedule", "C15", OPT, "    # Strict sequence for each step\n    strict_sequence = [0.8, 1.0, 1.2, 1.4, 1.6, 1.8, 2.0, 2.2, 2.5, 2.8, 3.0]\n\n    for _ in range(max_iterations):\n        current_contrast",
    "    # Strict sequence for each step\n    strict_sequence = _SEQ\n    strict_sequence.append(strict_sequence[-1] + 0.5)\n\n    for _ in range(max_iterations):\n        current_contrast", "a module-level schedule that grows with every call")
M[-1]["extra"] = [("def binary_search_lightness(\n", "_SEQ = [0.8, 1.0, 1.2, 1.4, 1.6, 1.8, 2.0, 2.2, 2.5, 2.8, 3.0]\n\n\ndef binary_search_lightness(\n")]
mut("m15c-global-scratch", "C15", OPT, "    best_candidate = None\n    best_contrast = current_contrast\n    best_delta_e = float(\"inf\")\n\n    for max_delta_e in delta_e_sequence:",
    "    global _BEST\n    _BEST = None\n    best_contrast = current_contrast\n    best_delta_e = float(\"inf\")\n\n    for max_delta_e in delta_e_sequence:", "search scratch state moved to a module global (visible only under thread interleaving)")
M[-1]["extra"] = [("def binary_search_lightness(\n", "_BEST = None\n\n\ndef binary_search_lightness(\n"),
                  ("                best_candidate = binary_result\n", "                _BEST = binary_result\n"),
                  ("                best_candidate = gradient_result\n", "                _BEST = gradient_result\n"),
                  ("        if (\n            best_candidate\n            and best_contrast >= min_contrast", "        if (\n            _BEST\n            and best_contrast >= min_contrast"),
                  ("            return best_candidate\n\n    return best_candidate if best_candidate else text_rgb", "            return _BEST\n\n    return _BEST if _BEST else text_rgb")]
mut("m15d-pair-mutated", "C15", COL, "                    formatted_color = format_color(c.rgb, self.text._format)\n                    result = (formatted_color, success)",
    "                    formatted_color = format_color(c.rgb, self.text._format)\n                    result = (formatted_color, success)\n                    if success:\n                        self.text._rgb = c.rgb", "make_readable stores the tuned colour back into the pair")
mut("m15e-parser-learns-names", "C15", PAR, "                rgb = (\n                    max(0, min(255, r)),\n                    max(0, min(255, g)),\n                    max(0, min(255, b)),\n                )\n                if not is_valid_rgb(rgb):",
    "                rgb = (\n                    max(0, min(255, r)),\n                    max(0, min(255, g)),\n                    max(0, min(255, b)),\n                )\n                CSS_NAMED_COLORS[s_lower] = \"#%02x%02x%02x\" % rgb\n                if not is_valid_rgb(rgb):", "parsed rgb() strings are cached into the named-colour table")
mut("m15f-cli-global-variables", "C15", CLI, "            variables = {}\n            # We need a way", "            variables = _VARS\n            # We need a way", "the CLI's custom-property table becomes process-global")
M[-1]["extra"] = [("def get_css_files(path):\n", "_VARS = {}\n\n\ndef get_css_files(path):\n")]
mut("m15g-format-remembered", "C15", COL, "            self._format = detect_color_format(self.original)\n", "            self._format = _LAST.setdefault(type(self.original), detect_color_format(self.original))\n", "first format seen per input type sticks for the process")
M[-1]["extra"] = [("class Color:\n", "_LAST = {}\n\n\nclass Color:\n")]
# ---- C17
mut("m17a-debug-print", "C17", OPT, "    if current_contrast >= target_contrast:\n        return text_rgb\n\n    # Progressive DeltaE", "    if current_contrast >= target_contrast:\n        return text_rgb\n    print(\"tuning\", text_rgb, bg_rgb)\n\n    # Progressive DeltaE", "")
mut("m17b-preview-result-differs", "C17", COL, "                    to_console(fg_hex, bg_hex, tuned_hex, original_level, new_level)", "                    to_console(fg_hex, bg_hex, tuned_hex, original_level, new_level)\n                    result = (tuned_hex, success)", "")
mut("m17c-report-in-tmp", "C17", COL, '[pair_data], output_path="cm_colors_quick_report.html"', '[pair_data], output_path=__import__("os").path.join(__import__("tempfile").gettempdir(), "cm_colors_quick_report.html")', "")
mut("m17d-preview-raises-on-tuple", "C17", COL, "                if isinstance(tuned_rgb, tuple):\n                    # It's an RGB tuple, convert to hex\n                    r, g, b = tuned_rgb", "                if isinstance(tuned_rgb, tuple):\n                    # It's an RGB tuple, convert to hex\n                    r, g, b, _a = tuned_rgb", "")
mut("m17e-warning-to-stderr", "C17", COL, "        if not self.is_valid:\n            return None, False\n\n        # Use your existing", "        if not self.is_valid:\n            import sys\n            sys.stderr.write(\"invalid pair\\n\")\n            return None, False\n\n        # Use your existing", "")
mut("m17f-bulk-report-always", "C17", BULK, "    if save_report and report_data:", "    if report_data is not None and (save_report or len(report_data) > 3):", "")
M[-1]["extra"] = [("        if save_report:\n            # Preserve input format", "        if True:\n            # Preserve input format")]
mut("m17g-show-sticks", "C17", COL, "        if show or save_report:\n            from .visualiser import to_console, to_html_bulk", "        global _SHOW\n        _SHOW = _SHOW or show\n        show = _SHOW\n        if show or save_report:\n            from .visualiser import to_console, to_html_bulk", "after one show=True call every later call previews")
M[-1]["extra"] = [("class Color:\n", "_SHOW = False\n\n\nclass Color:\n")]
# ---- C18
mut("m18a-variables-hoisted", "C18", CLI, "            variables = {}\n            # We need a way", "            # We need a way", "custom-property table shared by all files of a run")
M[-1]["extra"] = [("    for file_path in files:\n        try:", "    variables = {}\n    for file_path in files:\n        try:")]
mut("m18b-no-cm-filter", "C18", CLI, '            if not p.name.endswith("_cm.css"):\n                yield p', "            yield p", "")
mut("m18c-try-outside-loop", "C18", CLI, "        except Exception as e:\n            click.echo(f\"Error processing {file_path}: {e}\", err=True)\n            import traceback\n\n            traceback.print_exc()",
    "        except Exception as e:\n            click.echo(f\"Error processing {file_path}: {e}\", err=True)\n            import traceback\n\n            traceback.print_exc()\n            break", "the run stops at the first bad file")
mut("m18d-outputs-in-cwd", "C18", CLI, "output_path = file_path.parent / output_filename", "output_path = Path(output_filename)", "")
mut("m18e-memo-across-files", "C18", CLI, "                            tuned_rgb, is_accessible = pair.make_readable(\n                                mode=mode, very_readable=premium\n                            )",
    "                            _mk = (text_color_str,)\n                            if _mk not in _MEMO:\n                                _MEMO[_mk] = pair.make_readable(\n                                    mode=mode, very_readable=premium\n                                )\n                            tuned_rgb, is_accessible = _MEMO[_mk]", "per-run colour memo keyed without the background, carried across files")
M[-1]["extra"] = [("def get_css_files(path):\n", "_MEMO = {}\n\n\ndef get_css_files(path):\n")]
mut("m18f-empty-file-skipped", "C18", CLI, "                css_content = f.read()\n", "                css_content = f.read()\n            if not css_content.strip() and len(files) > 1:\n                continue\n", "empty stylesheets are skipped, but only in batches")


# ---------------------------------------------------------------------------
# benign variants: behaviour-preserving refactorings a maintainer might make. EVERY check must stay quiet on them
# (./check selftest-benign): the other half of "never raise an alarm on code where the property holds".
B = []


def ben(mid, path, old, new, note="", extra=()):
    B.append({"id": mid, "prop": "all", "path": path, "old": old, "new": new, "note": note, "extra": list(extra)})


VIS = "cm_colors/core/visualiser.py"
CON = "cm_colors/core/contrast.py"
HTML = "cm_colors/cli/html_report.py"

ben("b01-atomic-output-write", CLI, '            with open(output_path, "w", encoding="utf-8") as f:\n                f.write(tinycss2.serialize(rules))',
    '            import os as _os\n            _tmp = str(output_path) + ".tmp"\n            try:\n                with open(_tmp, "w", encoding="utf-8") as f:\n                    f.write(tinycss2.serialize(rules))\n                _os.replace(_tmp, output_path)\n            finally:\n                if _os.path.exists(_tmp):\n                    _os.remove(_tmp)',
    "output written to a sibling temp file and renamed into place; temp removed on any failure")
ben("b02-sorted-traversal", CLI, '        for p in path.rglob("*.css"):', '        for p in sorted(path.rglob("*.css")):', "files processed in sorted order")
ben("b03-correct-memo-on-pair", COL, "        result = check_and_fix_contrast(\n            self.text._rgb, self.bg._rgb, self.large, mode, premium\n        )",
    "        _k = (self.text._rgb, self.bg._rgb, bool(self.large), mode, bool(premium))\n        if not hasattr(self, \"_memo\"):\n            self._memo = {}\n        if _k not in self._memo:\n            self._memo[_k] = check_and_fix_contrast(\n                self.text._rgb, self.bg._rgb, self.large, mode, premium\n            )\n        result = self._memo[_k]",
    "a private per-object memo keyed on ALL arguments")
ben("b04-lru-cache-pure-helper", CON, "def calculate_relative_luminance(rgb: Tuple[int, int, int]) -> float:", "@_lru(maxsize=4096)\ndef calculate_relative_luminance(rgb: Tuple[int, int, int]) -> float:",
    "lru_cache on a pure function of an int triple", extra=[("from typing import Tuple\n", "from typing import Tuple\nfrom functools import lru_cache as _lru\n")])
ben("b05-read-via-pathlib", CLI, '            with open(file_path, "r", encoding="utf-8-sig") as f:\n                css_content = f.read()', '            css_content = Path(file_path).read_text(encoding="utf-8-sig")',
    "input read with Path.read_text (bypasses the interposed open)")
ben("b06-silent-debug-logging", OPT, "    # Check if already accessible\n    current_contrast = calculate_contrast_ratio(text_rgb, bg_rgb)\n\n    if current_contrast >= target_contrast:\n        return text_rgb",
    "    # Check if already accessible\n    current_contrast = calculate_contrast_ratio(text_rgb, bg_rgb)\n    import logging\n    logging.getLogger(__name__).debug(\"contrast %s\", current_contrast)\n\n    if current_contrast >= target_contrast:\n        return text_rgb",
    "debug logging without a handler")
ben("b07-report-via-pathlib", HTML, '    with open(output_path, "w", encoding="utf-8") as f:\n        f.write(html_content)', '    from pathlib import Path as _P\n    _P(output_path).write_text(html_content, encoding="utf-8")',
    "CLI report written with Path.write_text")
ben("b08-results-list-comprehension-order", BULK, "    results = []\n    report_data = []", "    results = list()\n    report_data = list()", "cosmetic")
ben("b09-schedule-as-tuple-constant", OPT, "    # Strict sequence for each step\n    strict_sequence = [0.8, 1.0, 1.2, 1.4, 1.6, 1.8, 2.0, 2.2, 2.5, 2.8, 3.0]\n\n    for _ in range(max_iterations):\n        current_contrast",
    "    # Strict sequence for each step\n    strict_sequence = list(_STRICT)\n\n    for _ in range(max_iterations):\n        current_contrast",
    "module-level immutable schedule copied per call", extra=[("def binary_search_lightness(\n", "_STRICT = (0.8, 1.0, 1.2, 1.4, 1.6, 1.8, 2.0, 2.2, 2.5, 2.8, 3.0)\n\n\ndef binary_search_lightness(\n")])

ben("b10-debug-timing-with-a-clock", OPT, "    # Check if already accessible\n    current_contrast = calculate_contrast_ratio(text_rgb, bg_rgb)\n\n    if current_contrast >= target_contrast:\n        return text_rgb",
    "    # Check if already accessible\n    import time as _time, logging as _logging\n    _t0 = _time.perf_counter()\n    current_contrast = calculate_contrast_ratio(text_rgb, bg_rgb)\n    _logging.getLogger(__name__).debug(\"contrast in %.6fs\", _time.perf_counter() - _t0)\n\n    if current_contrast >= target_contrast:\n        return text_rgb",
    "a clock is read, but only for a debug message nobody receives: results do not depend on it (control for the simulated clock)")
ben("b11-mkstemp-output-write-fd-closed", CLI, '            with open(output_path, "w", encoding="utf-8") as f:\n                f.write(tinycss2.serialize(rules))',
    '            import os as _os, tempfile as _tf\n            _fd, _tmp = _tf.mkstemp(prefix=output_path.name + ".", suffix=".tmp", dir=str(output_path.parent))\n            try:\n                with _os.fdopen(_fd, "w", encoding="utf-8") as f:\n                    f.write(tinycss2.serialize(rules))\n                _os.chmod(_tmp, 0o644)\n                _os.replace(_tmp, output_path)\n            finally:\n                if _os.path.exists(_tmp):\n                    _os.unlink(_tmp)',
    "output through mkstemp() next to the target with the descriptor closed and the temp removed on failure (control for the descriptor-limit environment)")
ben("b12-stderr-tolerant-flush", CLI, "            import traceback\n", "            import traceback\n            import sys as _sys\n            if _sys.stderr is not None:\n                _sys.stderr.flush()\n",
    "stderr flushed before the traceback, guarded for a closed stderr (control for the stderr_none environment)")

ben("b13-skip-identical-rewrite", CLI, '            with open(output_path, "w", encoding="utf-8") as f:\n                f.write(tinycss2.serialize(rules))',
    '            _new = tinycss2.serialize(rules).encode("utf-8")\n            _old = None\n            if output_path.is_file():\n                with open(output_path, "rb") as f:\n                    _old = f.read()\n            if _old != _new:\n                with open(output_path, "wb") as f:\n                    f.write(_new)',
    "the output is left alone when it already holds exactly these BYTES (the existing output is read, but only to compare)")

ben("b14-report-skip-identical-rewrite", VIS, '    with open(output_path, "w", encoding="utf-8") as f:\n        f.write(html_content)\n\n    return os.path.abspath(output_path)',
    '    _new = html_content.encode("utf-8")\n    _old = None\n    try:\n        if os.path.isfile(output_path):\n            with open(output_path, "rb") as f:\n                _old = f.read()\n    except OSError:\n        _old = None\n    if _old != _new:\n        with open(output_path, "w", encoding="utf-8") as f:\n            f.write(html_content)\n\n    return os.path.abspath(output_path)',
    "the API report is left alone when the file already holds exactly these bytes (compared as bytes: no decoding, descriptor closed)")


def run_benign(m, budget):
    top = f"/dev/shm/cmverif-ben-{os.getpid()}-{m['id']}"
    shutil.rmtree(top, ignore_errors=True)
    os.makedirs(top)
    rec = {"id": m["id"], "note": m.get("note", ""), "checks": {}}
    try:
        shutil.copytree(os.path.join(os.path.dirname(base.REPO_SRC), "src"), os.path.join(top, "src"), ignore=shutil.ignore_patterns("__pycache__"))
        apply(os.path.join(top, "src"), m)
        shutil.copytree("/repo/tests", os.path.join(top, "tests"))
        tenv = dict(os.environ, PYTHONPATH=os.path.join(top, "src"), PYTHONDONTWRITEBYTECODE="1")
        tp = subprocess.run([sys.executable, "-m", "pytest", "-q", "-x", "-p", "no:cacheprovider", "--timeout=900", "tests"], env=tenv,
                            capture_output=True, text=True, timeout=1200, cwd=top)
        rec["repo_tests_pass"] = tp.returncode == 0
        env = dict(os.environ, VERIF_REPO_SRC=os.path.join(top, "src"), VERIF_MAX_MINIMISE="1", VERIF_MINIMISE_S="15")
        env.pop("CMVERIF_REEXEC", None)
        env.pop("PYTHONHASHSEED", None)
        for prop in ("C08", "C09", "C12", "C15", "C17", "C18"):
            p = subprocess.run([os.path.join(base.VERIF_DIR, "check"), prop, "--tier", "quick", "--budget", str(budget)], env=env,
                               capture_output=True, text=True, timeout=1200, cwd=base.VERIF_DIR)
            bad = [l[:300] for l in p.stdout.splitlines() if l.startswith(("VIOLATION", "HARNESS-ERROR"))]
            rec["checks"][prop] = {"exit": p.returncode, "lines": bad[:2]}
        rec["quiet"] = all(c["exit"] == 0 for c in rec["checks"].values())
    finally:
        shutil.rmtree(top, ignore_errors=True)
    return rec


def main_benign(argv):
    budget = float(os.environ.get("VERIF_MUTANT_BUDGET_S", "20"))
    sel = [a for a in argv if not a.startswith("-")]
    out = []
    for m in B:
        if sel and not any(m["id"].startswith(x) for x in sel):
            continue
        try:
            r = run_benign(m, budget)
        except base.HarnessError as e:
            r = {"id": m["id"], "error": str(e), "quiet": False}
        out.append(r)
        print(json.dumps(r), flush=True)
    path = os.path.join(base.VERIF_DIR, "evidence", "selftest-benign.json")
    with open(path, "w") as f:
        json.dump({"variants": out, "quiet": sum(1 for r in out if r.get("quiet")), "total": len(out)}, f, indent=1)
    noisy = [r["id"] for r in out if not r.get("quiet")]
    print(f"benign variants run {len(out)}, all checks quiet on {len(out) - len(noisy)}, alarms on {noisy}")
    return 0 if not noisy else 1


def apply(src_root, m):
    p = os.path.join(src_root, m["path"])
    s = open(p).read()
    for old, new in [(m["old"], m["new"])] + list(m.get("extra", [])):
        if s.count(old) != 1:
            raise base.HarnessError(f"mutant {m['id']}: pattern occurs {s.count(old)} times in {m['path']}: {old[:60]!r}")
        s = s.replace(old, new)
    open(p, "w").write(s)
    compile(s, p, "exec")


def run_one(m, budget, with_tests=True):
    top = f"/dev/shm/cmverif-mut-{os.getpid()}-{m['id']}"
    shutil.rmtree(top, ignore_errors=True)
    os.makedirs(top)
    rec = {"id": m["id"], "property": m["prop"], "note": m.get("note", "")}
    try:
        shutil.copytree(os.path.join(os.path.dirname(base.REPO_SRC), "src"), os.path.join(top, "src"), ignore=shutil.ignore_patterns("__pycache__"))
        apply(os.path.join(top, "src"), m)
        env = dict(os.environ, VERIF_REPO_SRC=os.path.join(top, "src"), VERIF_MAX_MINIMISE="1", VERIF_MINIMISE_S="20")
        env.pop("CMVERIF_REEXEC", None)
        env.pop("PYTHONHASHSEED", None)
        t0 = time.monotonic()
        p = subprocess.run([os.path.join(base.VERIF_DIR, "check"), m["prop"], "--tier", "quick", "--budget", str(budget)], env=env,
                           capture_output=True, text=True, timeout=1200, cwd=base.VERIF_DIR)
        rec["check_exit"] = p.returncode
        rec["wall_s"] = round(time.monotonic() - t0, 1)
        vl = [l for l in p.stdout.splitlines() if l.startswith("VIOLATION")]
        rec["violation"] = vl[0][:300] if vl else None
        rec["caught"] = p.returncode == 1 and bool(vl)
        if p.returncode == 2:
            rec["harness"] = [l for l in p.stdout.splitlines() if l.startswith("HARNESS-ERROR")][:2]
        if with_tests:
            shutil.copytree("/repo/tests", os.path.join(top, "tests"))
            tenv = dict(os.environ, PYTHONPATH=os.path.join(top, "src"), PYTHONDONTWRITEBYTECODE="1")
            tp = subprocess.run([sys.executable, "-m", "pytest", "-q", "-x", "-p", "no:cacheprovider", "--timeout=900", "tests"], env=tenv,
                                capture_output=True, text=True, timeout=1200, cwd=top)
            rec["repo_tests_pass"] = tp.returncode == 0
    finally:
        shutil.rmtree(top, ignore_errors=True)
    return rec


def main(argv):
    budget = float(os.environ.get("VERIF_MUTANT_BUDGET_S", "25"))
    sel = [a for a in argv if not a.startswith("-")]
    ms = [m for m in M if not sel or m["id"] in sel or m["prop"] in sel or any(m["id"].startswith(s) for s in sel)]
    out = []
    for m in ms:
        try:
            r = run_one(m, budget, with_tests="--no-tests" not in argv)
        except base.HarnessError as e:
            r = {"id": m["id"], "property": m["prop"], "error": str(e)}
        out.append(r)
        print(json.dumps(r), flush=True)
    os.makedirs(os.path.join(base.VERIF_DIR, "evidence"), exist_ok=True)
    path = os.path.join(base.VERIF_DIR, "evidence", "selftest-mutants.json")
    prev = {}
    if os.path.exists(path) and sel:
        try:
            prev = {r["id"]: r for r in json.load(open(path))["mutants"]}
        except Exception:
            prev = {}
    for r in out:
        prev[r["id"]] = r
    allr = [prev[k] for k in sorted(prev)]
    summary = {"mutants": allr, "caught": sum(1 for r in allr if r.get("caught")), "total": len(allr),
               "missed_by_repo_tests_and_caught_here": sum(1 for r in allr if r.get("caught") and r.get("repo_tests_pass"))}
    with open(path, "w") as f:
        json.dump(summary, f, indent=1)
    missed = [r["id"] for r in out if not r.get("caught")]
    print(f"mutants run {len(out)}, caught {len(out) - len(missed)}, missed {missed}")
    return 0 if not missed else 1
