"""Deterministic thread scheduler: real threads, simulated choice of who runs (DESIGN 3.5).

Exactly one client thread holds the baton; the others are parked on their own semaphore.
`sys.settrace` line/call events in frames whose code lives under cm_colors are the only
pre-emption points.  Decisions come either from a seeded PRNG (search) or from an explicit
list of (step, next_thread) pairs (replay); the executed decisions are always recorded, so
a run can be replayed and minimised without any PRNG.
"""
import dis
import faulthandler
import os
import sys
import threading
import time
import types

from . import base

MUTATORS = {"append", "extend", "insert", "update", "setdefault", "pop", "popitem", "clear", "add", "remove", "discard", "sort", "reverse"}


def cm_dir():
    import cm_colors

    return os.path.dirname(os.path.realpath(cm_colors.__file__)) + os.sep


_HOT = None


def hot_lines():
    """Lines of the current tree that touch state shared between calls: computed by a bytecode scan
    on every check, so a change that introduces a cache or scratch global makes its own lines hot."""
    global _HOT
    if _HOT is not None:
        return _HOT
    import importlib

    hot = {}
    root = cm_dir()
    mods = [m for n, m in sorted(sys.modules.items()) if n.startswith("cm_colors") and getattr(m, "__file__", None)]
    for m in mods:
        mutable_globals = {k for k, v in vars(m).items() if isinstance(v, (dict, list, set, bytearray)) and not k.startswith("__")}
        seen = set()

        def scan(code, why_prefix=""):
            if id(code) in seen:
                return
            seen.add(id(code))
            if not code.co_filename.startswith(root):
                return
            instrs = list(dis.get_instructions(code))
            line = code.co_firstlineno
            prev = []
            for ins in instrs:
                if ins.starts_line is not None:
                    line = ins.starts_line if not isinstance(ins.starts_line, bool) else line
                if getattr(ins, "line_number", None):
                    line = ins.line_number
                op = ins.opname
                key = (code.co_filename, line)
                if op in ("STORE_GLOBAL", "DELETE_GLOBAL") and code.co_name != "<module>":
                    hot.setdefault(key, set()).add(op + " " + str(ins.argval))
                elif op in ("LOAD_GLOBAL", "LOAD_NAME") and ins.argval in mutable_globals and code.co_name != "<module>":
                    hot.setdefault(key, set()).add("reads mutable global " + str(ins.argval))
                elif op == "STORE_ATTR":
                    # target on the stack just before: self.x = ... / module_global.x = ...
                    tgt = prev[-1] if prev else None
                    if tgt is not None and (tgt.argval == "self" or tgt.opname in ("LOAD_GLOBAL", "LOAD_NAME")):
                        hot.setdefault(key, set()).add("STORE_ATTR " + str(ins.argval))
                elif op == "STORE_SUBSCR":
                    hot.setdefault(key, set()).add("STORE_SUBSCR")
                elif op in ("LOAD_ATTR", "LOAD_METHOD") and ins.argval in MUTATORS:
                    tgt = prev[-1] if prev else None
                    if tgt is not None and (tgt.opname in ("LOAD_GLOBAL", "LOAD_NAME", "LOAD_DEREF") or tgt.argval == "self" or tgt.opname == "LOAD_ATTR"):
                        hot.setdefault(key, set()).add("mutating call ." + str(ins.argval) + "() on non-local")
                prev.append(ins)
                prev = prev[-3:]
            for c in code.co_consts:
                if isinstance(c, types.CodeType):
                    scan(c)

        for k, v in list(vars(m).items()):
            fn = getattr(v, "__wrapped__", None)
            if fn is not None and hasattr(v, "cache_info"):
                hot.setdefault((fn.__code__.co_filename, fn.__code__.co_firstlineno), set()).add("lru_cache wrapper")
            if isinstance(v, types.FunctionType) and v.__module__ == m.__name__:
                if any(isinstance(d, (list, dict, set)) for d in (v.__defaults__ or ())):
                    hot.setdefault((v.__code__.co_filename, v.__code__.co_firstlineno + 1), set()).add("mutable default argument")
                scan(v.__code__)
            elif isinstance(v, type) and v.__module__ == m.__name__:
                for kk, vv in vars(v).items():
                    f = vv.fget if isinstance(vv, property) else vv
                    if isinstance(f, types.FunctionType):
                        scan(f.__code__)
    _HOT = {(os.path.relpath(f, root), ln): sorted(w) for (f, ln), w in hot.items()}
    return _HOT


class Stall(base.HarnessError):
    pass


class StepCap(BaseException):
    """Raised from the trace function when a run exceeds its step budget (BaseException so that
    the `except Exception` clauses inside cm_colors cannot swallow it)."""


class Scheduler:
    def __init__(self, n_threads, rng=None, schedule=None, mean_gap=500, p_hot=0.3, hot=None, max_steps=40_000_000):
        self.n = n_threads
        self.rng = rng
        self.schedule = list(schedule) if schedule is not None else None
        self.sched_i = 0
        self.mean_gap = mean_gap
        self.p_hot = p_hot
        self.root = cm_dir()
        self.hot = {(os.path.join(self.root, f), ln) for (f, ln) in (hot or {})} if hot is not None else set()
        self.sems = [threading.Semaphore(0) for _ in range(n_threads)]
        self.alive = [True] * n_threads
        self.current = None
        self.steps = 0
        self.next_switch = None
        self.decisions = []  # (step, from, to, "file:line" | "finish")
        self.hot_hits = 0
        self.switches_in = {}
        self.done = threading.Event()
        self.errors = []
        self.max_steps = max_steps
        self._draw_gap()

    # -- decisions
    def _draw_gap(self):
        if self.schedule is not None:
            nxt = self.schedule[self.sched_i] if self.sched_i < len(self.schedule) else None
            self.next_switch = nxt[0] if (nxt is not None and nxt[2] == "s") else None
        else:
            self.next_switch = self.steps + 1 + int(self.rng.expovariate(1.0 / self.mean_gap))

    def _choose(self, me, finishing):
        live = [i for i in range(self.n) if self.alive[i] and (i != me or not finishing)]
        if not live:
            return None
        if self.schedule is not None:
            want = "f" if finishing else "s"
            if self.sched_i < len(self.schedule) and self.schedule[self.sched_i][2] == want and \
                    (finishing or self.schedule[self.sched_i][0] == self.steps):
                to = self.schedule[self.sched_i][1]
                self.sched_i += 1
                if to in live:
                    return to
            return me if (not finishing) else live[0]
        return self.rng.choice(live)

    # -- tracing
    def _global_trace(self, frame, event, arg):
        if frame.f_code.co_filename.startswith(self.root):
            self._step(frame)
            return self._local_trace
        return None

    def _local_trace(self, frame, event, arg):
        if event == "line":
            self._step(frame)
        return self._local_trace

    def _step(self, frame):
        self.steps += 1
        if self.steps > self.max_steps:
            raise StepCap("step cap exceeded")
        sw = False
        if self.schedule is not None:
            sw = self.next_switch is not None and self.steps == self.next_switch
        else:
            if self.steps >= self.next_switch:
                sw = True
            elif self.hot and (frame.f_code.co_filename, frame.f_lineno) in self.hot:
                self.hot_hits += 1
                if self.rng.random() < self.p_hot:
                    sw = True
        if not sw:
            return
        me = self.current
        to = self._choose(me, False)
        self._draw_gap()
        if to is None or to == me:
            return
        where = "%s:%d" % (os.path.relpath(frame.f_code.co_filename, self.root), frame.f_lineno)
        self.decisions.append((self.steps, me, to, where))
        mod = where.split(":")[0]
        self.switches_in[mod] = self.switches_in.get(mod, 0) + 1
        self.current = to
        self.sems[to].release()
        self.sems[me].acquire()

    # -- client protocol
    def client(self, idx, fn):
        def body():
            self.sems[idx].acquire()
            sys.settrace(self._global_trace)
            try:
                fn()
            except BaseException as e:  # noqa
                self.errors.append((idx, "%s: %s" % (type(e).__name__, e)))
            finally:
                sys.settrace(None)
                self.alive[idx] = False
                to = self._choose(idx, True)
                if to is None:
                    self.done.set()
                else:
                    self.decisions.append((self.steps, idx, to, "finish"))
                    if self.schedule is not None:
                        self._draw_gap()
                    self.current = to
                    self.sems[to].release()

        t = threading.Thread(target=body, name="sim-client-%d" % idx, daemon=True)
        return t

    def run(self, fns, first=None, stall_s=20.0):
        before = set(threading.enumerate())
        threads = [self.client(i, f) for i, f in enumerate(fns)]
        for t in threads:
            t.start()
        if self.schedule is not None and self.sched_i < len(self.schedule) and self.schedule[self.sched_i][2] == "start":
            first = self.schedule[self.sched_i][1]
            self.sched_i += 1
            self._draw_gap()
        elif self.schedule is not None:
            first = 0
        elif first is None:
            first = self.rng.randrange(self.n) if self.rng is not None else 0
        self.decisions.append((0, None, first, "start"))
        self.current = first
        self.sems[first].release()
        last = (-1, time.monotonic())
        while not self.done.wait(1.0):
            if self.steps != last[0]:
                last = (self.steps, time.monotonic())
            elif time.monotonic() - last[1] > stall_s:
                faulthandler.dump_traceback(file=sys.stderr)
                raise Stall("no scheduler step for %.0f s (a parked thread probably owns a lock)" % stall_s)
        for t in threads:
            t.join(5.0)
        extra = [t for t in threading.enumerate() if t not in before and t not in threads]
        if extra:
            raise base.HarnessError("uncontrolled-thread: " + ", ".join(t.name for t in extra))
        return self.decisions

    def explicit_schedule(self):
        return [[s, to, "start" if where == "start" else ("f" if where == "finish" else "s")] for (s, frm, to, where) in self.decisions]
