"""C12 - the bulk API is exactly a map of the single-pair API, in order.

A run generates one list L of 2-/3-element entries (every colour spelling, unparsable
"poison" entries, duplicates) and a family of derived call sequences executed in ONE process:
bulk(L), bulk(pi(L)), bulk(L1)+bulk(L2), L with a poison entry inserted at positions, bulk(L+L),
bulk(L) again.  Reference: each entry evaluated alone by ColorPair(...).make_readable in a
pristine forked process, the label recomputed by the independent WCAG/CSS-colour reference.
"""
import copy
import os

from . import apiops, base, gen, refs, sched
from .apiops import dec, enc
from .base import stream

ID = "C12"
LEVEL = "exploration"
BUDGET = {"quick": 40.0, "thorough": 900.0}
CHUNK = 4
RUN_TIMEOUT = 300.0
SELFTEST_RUNS = 2
RULE = ("one run = one generated list of 0-12 entries (2- and 3-element forms mixed, every colour spelling incl. translucent, tuples/lists, "
        "unparsable 'poison' text and/or background at seeded positions, duplicates) x mode x very_readable, evaluated through a history of "
        "bulk calls in one process (original, permuted, split in two, poison inserted at positions, doubled, with save_report, after calls with other "
        "settings, repeated; in a quarter of the runs also the list and its permutation evaluated CONCURRENTLY by two threads under the seeded "
        "baton-passing scheduler, pre-emption at line boundaries inside cm_colors) and compared entry by "
        "entry with the single-pair API run in a pristine forked process plus an independent WCAG label. Non-trivial = at least one entry "
        "whose colour was changed and at least one poison entry or derived call; distinct = distinct event-log digest.")
ASSUMPTIONS = [
    "the colour reference for an entry IS the single-pair API (as the property states), evaluated under the empty history in a forked pristine process",
    "the label reference is ref_wcag + tinycss2.color3 on the returned colour; entries whose reference ratio is within 1e-9 of a threshold are not judged on the label",
    "injected 'faults' here are unparsable entries, a report directory on another file system, and pre-emption of one caller by another; not I/O errors",
]
PROBES = ["lists", "entries", "entries_changed", "poison_entries", "poison_text", "poison_bg", "three_element_entries", "large_true",
          "empty_list", "duplicates", "calls", "label_checked", "label_skipped_alpha_bg", "mode0", "mode1", "mode2", "very_readable",
          "status_very_readable", "status_readable", "status_not_readable", "list_entries_form", "alias_family_entries", "same_translucent_text_on_several_backgrounds", "held_results_rechecked", "history_calls_with_other_settings", "exotic_background_entries", "concurrent_call_pairs", "context_switches", "calls_under_warnings_as_errors", "report_variant_tmpdir_on_other_filesystem"]


def _colour(rng, rgb, role, notation=None):
    m = rng.random()
    if notation and role == "t" and rng.random() < 0.7:
        return enc(gen.spell(rng, rgb, (notation,))[0]), False
    if role == "t" and m < 0.15:
        return enc(gen.spell_alpha(rng, rgb, rng.choice((0.0, 0.25, 0.5, 0.999, 1.0, round(rng.random(), 3))))[0]), True
    kinds = gen.CSS_SPELLINGS + gen.API_ONLY_SPELLINGS
    if role == "t" and rng.random() < 0.25:
        kinds = kinds + gen.EXOTIC_API_SPELLINGS
    if role == "b" and rng.random() < 0.15:
        # backgrounds in the rarer API spellings too (float fractions, HSL-looking tuples, padded strings ...): the label
        # reference then takes the background as the library's own Color() reads it in a pristine process
        return enc(gen.spell(rng, rgb, gen.EXOTIC_API_SPELLINGS)[0]), "exotic"
    return enc(gen.spell(rng, rgb, kinds)[0]), False


def _poison(rng):
    if rng.random() < 0.3:
        return enc(rng.choice(gen.POISON_WORDS))
    if rng.random() < 0.25:
        return enc(rng.choice(gen.NEAR_CSS))  # (accepted or rejected by the library: the single-pair API decides)
    if rng.random() < 0.6:
        return enc(rng.choice(gen.POISON_STR))
    return enc(rng.choice(gen.POISON_OBJ))


def _entry(rng, vr, poison_p, notation=None):
    bg = gen.rand_rgb(rng)
    # (a size flag that is truthy / falsy but not a bool: 1, 0, 1.0, 2, "large", "false" - ColorPair goes by its truth value)
    large = rng.choice((None, None, None, None, False, False, True, True, True, True, 1, 0, 1.0, 2, "large", "false", 0.0))
    thr = refs.target_ratio(premium=vr, large=bool(large))
    band = rng.choice(("pass", "pass-hair", "fix", "fix", "fix-hair", "mid", "hard", "same", "random"))
    trgb, _ = gen.pick_text(rng, bg, thr, band)
    t, alpha = _colour(rng, trgb, "t", notation)
    b, bx = _colour(rng, bg, "b")
    e = {"t": t, "b": b, "large": large, "bg_rgb": list(bg), "alpha": alpha}
    if bx == "exotic":
        e["bg_exotic"] = True
    if rng.random() < poison_p:
        which = rng.choice(("t", "b", "tb", "tb"))
        if "t" in which:
            e["t"] = _poison(rng)
        if "b" in which:
            e["b"] = _poison(rng)
            e["bg_rgb"] = None
        if which == "tb" and rng.random() < 0.4:
            # a row of plain words (the heading row of a CSV export): both cells, and the size cell too if there is one
            e["t"], e["b"] = enc(rng.choice(gen.POISON_WORDS)), enc(rng.choice(gen.POISON_WORDS))
            if e.get("large") is not None and rng.random() < 0.5:
                e["large"] = rng.choice(("large", "size", "yes"))
        e["poison"] = which
    return e


def generate(rseed, tier, idx):
    g = stream(rseed, "gen")
    mode = g.choice((0, 1, 1, 2, None))
    vr = g.random() < 0.4
    n = g.choice((0, 1, 2, 3, 3, 4, 5, 6, 8, 12))
    big = g.random() < 0.03
    poison_p = g.choice((0.0, 0.15, 0.3))
    # a list whose texts are mostly written in ONE notation (hsl() favoured): whatever is special about formatting a result
    # back into that notation is met by most entries of the run
    notation = g.choice((None, None, None, None, "hsl", "hsl", "rgbpct", "name"))
    L = [_entry(g, vr, poison_p, notation) for _ in range(n)]
    if big:
        # a long list (100+ entries, mostly already readable so it stays cheap) around the generated ones
        k0 = g.randrange(1 << 20)
        pad = [{"t": enc("#%06x" % (((k0 + 7919 * j) % (1 << 24)) & 0x3f3f3f)), "b": enc("#ffffff"), "large": None, "bg_rgb": [255, 255, 255], "alpha": False}
               for j in range(g.choice((100, 140)))]
        pos = g.randrange(len(pad))
        L = pad[:pos] + L + pad[pos:]
        n = len(L)
    if n >= 2 and g.random() < 0.4:  # duplicates
        for _ in range(g.randint(1, 2)):
            L[g.randrange(n)] = copy.deepcopy(L[g.randrange(n)])
    if n >= 2 and g.random() < 0.3:  # the same two colours as normal AND as large text in one list (2- and 3-element forms)
        src = L[g.randrange(n)]
        if not src.get("poison"):
            tw = copy.deepcopy(src)
            tw["large"] = (None if g.random() < 0.5 else False) if src.get("large") else True
            tw["size_twin"] = True
            L[g.randrange(n)] = tw
    if n >= 2 and g.random() < 0.4:  # members of one alias family side by side (same other colour, same size)
        fam = gen.alias_family(g)
        role = g.choice(("t", "t", "b"))
        other = _entry(g, vr, 0.0)
        idxs = g.sample(range(n), min(len(fam), n))
        for k, i in enumerate(idxs):
            e = copy.deepcopy(other)
            e[role] = enc(fam[k])
            e.pop("poison", None)
            if role == "b":
                e["bg_rgb"] = None if refs.any_rgb(fam[k]) is None else list(refs.any_rgb(fam[k]))
            e["alias"] = True
            L[i] = e
    if n >= 2 and g.random() < 0.35:
        # one translucent text spelling (whose meaning depends on the background) used on several backgrounds
        src = gen.rand_rgb(g)
        txt = enc(gen.spell_alpha(g, src, g.choice((0.25, 0.5, 0.75)), g.choice(gen.ALPHA_SPELLINGS))[0])
        for i in g.sample(range(n), g.randint(2, min(3, n))):
            L[i]["t"] = txt
            L[i].pop("poison", None) if L[i].get("poison") == "t" else None
            L[i]["alpha"] = True
            L[i]["same_alpha_text"] = True
    perm = list(range(n))
    g.shuffle(perm)
    pe = _entry(g, vr, 1.0)
    if n <= 4:
        positions = list(range(n + 1))
    elif n > 50:
        positions = [g.randrange(n + 1)]
    else:
        positions = sorted({0, n, g.randrange(n + 1)})
    e = stream(rseed, "env")
    # calls with OTHER settings (mode / very_readable) made by the same process before and between the judged ones
    others = [{"mode": e.choice((0, 1, 2, None)), "vr": e.choice((True, True, False)), "when": e.choice(("first", "middle", "middle"))}
              for _ in range(e.choice((0, 1, 1, 2)))]
    renv = {"tmp_other_fs": e.random() < 0.3, "cwd": e.choice(("cwd", "cwd", "work [v2]", "a b/c"))}
    return {"prop": ID, "mode": mode, "vr": vr, "L": L, "perm": perm, "split": g.randint(0, n), "poison": pe, "others": others, "report_env": renv, "warn_window": e.random() < 0.25,
            "threads": ({"seed": e.randrange(1 << 62), "mean_gap": e.choice((50, 500, 5000)), "schedule": None} if idx % 4 == 2 and n <= 12 else None),
            "positions": positions, "as": g.choice(("tuple", "tuple", "list")), "container": g.choice(("list", "list", "list", "tuple", "iter", "gen")), "derived": True}


# ---------------------------------------------------------------------------


def _pairs(entries):
    out = []
    for e in entries:
        if e.get("large") is None:
            out.append([e["t"], e["b"]])
        else:
            out.append([e["t"], e["b"], e["large"]])
    return out


def execute(trace):
    mode, vr = trace["mode"], trace["vr"]
    events, vio, stats = [], [], {}
    skipped = 0

    def bump(k, n=1):
        stats[k] = stats.get(k, 0) + n

    def V(kind, **detail):
        vio.append({"kind": kind, "detail": detail, "features": {"kind": kind}})

    cache = {}
    L = trace["L"]
    bump("lists")
    bump("entries", len(L))
    bump("mode%d" % (mode if mode is not None else 1))
    if vr:
        bump("very_readable")
    if not L:
        bump("empty_list")
    if trace["as"] == "list":
        bump("list_entries_form")
    keys = [base.canon([e["t"], e["b"], e.get("large")]) for e in L]
    if len(set(keys)) < len(keys):
        bump("duplicates")

    # ---- 1. reference per entry, each in a pristine fork (this process has not called cm_colors yet)
    def expected(e):
        nonlocal skipped
        large = e.get("large") if e.get("large") is not None else False  # handed to ColorPair exactly as the entry carries it
        po = apiops.oracle({"op": "pair", "t": e["t"], "b": e["b"], "large": large}, cache)
        if "exc" in po:
            # the single-pair API raises on this entry: it certainly "cannot be parsed" - the bulk API must still
            # return it unchanged with a status that claims nothing, and carry on with the other entries
            return {"kind": "invalid", "single_api_raised": po["exc"]}
        valid = dec(po["ret"])[0]
        if not valid:
            return {"kind": "invalid"}
        mo = apiops.oracle({"op": "make", "t": e["t"], "b": e["b"], "large": large, "mode": mode, "vr": vr}, cache)
        if "exc" in mo:
            return {"kind": "invalid", "single_api_raised": mo["exc"]}
        colour, ok = dec(mo["ret"])
        lab = None
        bg_rgb = e.get("bg_rgb")
        if e.get("bg_exotic") and bg_rgb is not None:
            co = apiops.oracle({"op": "color", "v": e["b"]}, cache)
            got = dec(co["ret"]) if "ret" in co else None
            bg_rgb = list(got[1]) if got and got[0] and got[1] is not None else None
            bump("exotic_background_entries")
        if bg_rgb is not None and colour is not None:
            crgb = refs.any_rgb(colour)
            if crgb is not None:
                ratio = refs.contrast(crgb, tuple(bg_rgb))
                if refs.near_threshold(ratio):
                    skipped += 1
                else:
                    lab = refs.label(ratio, bool(large))
        return {"kind": "valid", "colour": colour, "ok": ok, "label": lab, "changed": refs.any_rgb(colour) != refs.any_rgb(dec(e["t"]), over=tuple(e["bg_rgb"]) if e.get("bg_rgb") else None)}

    exp_cache = {}

    def exp_of(e):
        k = base.canon([e["t"], e["b"], e.get("large")])
        if k not in exp_cache:
            exp_cache[k] = expected(e)
        return exp_cache[k]

    all_entries = L + [trace["poison"]]
    for e in all_entries:
        x = exp_of(e)
        if x["kind"] == "oracle-raised":
            # the single-pair API itself raised on this entry: nothing to compare the bulk API with (C14's business)
            pass
    changed_any = False
    for e in L:
        x = exp_of(e)
        if x["kind"] == "valid" and x.get("changed"):
            bump("entries_changed")
            changed_any = True
        if e.get("poison"):
            bump("poison_entries")
            bump("poison_text" if "t" in e["poison"] else "poison_bg")
        if e.get("large") is not None:
            bump("three_element_entries")
        if e.get("large"):
            bump("large_true")
        if e.get("alias"):
            bump("alias_family_entries")
        if e.get("same_alpha_text"):
            bump("same_translucent_text_on_several_backgrounds")

    # ---- 2. the history of bulk calls, all in this one process
    failed_in_base = set()
    hold_ctx = apiops.Ctx()

    def call(entries, tag, kind_for_mismatch, save=False, given=None):
        op = {"op": "bulk", "pairs": _pairs(entries), "mode": mode, "vr": vr, "as": trace["as"], "container": trace.get("container", "list"), "hold": True}
        if given is not None:
            r = given  # executed elsewhere (concurrently with another call); judged here like any other call
        elif save:
            # the same call with save_report=True (report and its console line go to a sandbox): same results,
            # also when the temp directory is on another file system than the working directory
            op["save"] = True
            sroot = base.new_sandbox("c12rep")
            renv = trace.get("report_env") or {}
            tmpd = None
            if renv.get("tmp_other_fs"):
                cand = os.path.join("/tmp" if sroot.startswith("/dev/shm") else "/dev/shm", "cmverif-tmp-%d-%s" % (os.getpid(), os.path.basename(sroot)))
                try:
                    os.makedirs(cand, exist_ok=True)
                    if os.stat(cand).st_dev != os.stat(sroot).st_dev:
                        tmpd = cand
                        bump("report_variant_tmpdir_on_other_filesystem")
                except OSError:
                    tmpd = None
            try:
                with apiops.Effects(sroot, cwd_rel=renv.get("cwd", "cwd"), tmpdir_abs=tmpd):
                    r = apiops.run_op(op, hold_ctx)
            finally:
                base.rm_tree(sroot)
                if tmpd:
                    base.rm_tree(tmpd)
        else:
            r = apiops.run_op(op, hold_ctx)
        bump("calls")
        events.append((tag, {k: v for k, v in r.items() if k in ("ret", "exc")}))
        if "exc" in r:
            if any(exp_of(e)["kind"] == "oracle-raised" for e in entries):
                return None
            V("raised", call=tag, exc=r["exc"], n=len(entries))
            return None
        res = dec(r["ret"])
        if not isinstance(res, list) or len(res) != len(entries):
            V("length", call=tag, expected=len(entries), got=(len(res) if isinstance(res, list) else repr(res)))
            return res
        for i, (e, got) in enumerate(zip(entries, res)):
            x = exp_of(e)
            ek = base.canon([e["t"], e["b"], e.get("large")])
            if x["kind"] == "oracle-raised" or (kind_for_mismatch and ek in failed_in_base):
                continue
            n_before = len(vio)
            if not (isinstance(got, tuple) and len(got) == 2):
                V(kind_for_mismatch or "colour-differs", call=tag, index=i, got=repr(got), note="result is not a (colour, status) pair")
                if kind_for_mismatch is None:
                    failed_in_base.add(ek)
                continue
            colour, status = got
            if x["kind"] == "invalid":
                same_text = colour == dec(e["t"]) and type(colour) is type(dec(e["t"]))
                if not same_text or status in ("readable", "very readable") or not isinstance(status, str):
                    V(kind_for_mismatch or "invalid-entry", call=tag, index=i, entry=[e["t"], e["b"]], got=repr(got))
                    if kind_for_mismatch is None:
                        failed_in_base.add(ek)
                continue
            if colour != x["colour"] or type(colour) is not type(x["colour"]):
                V(kind_for_mismatch or "colour-differs", call=tag, index=i, entry=[e["t"], e["b"], e.get("large")], mode=mode, vr=vr,
                  single=repr(x["colour"]), bulk=repr(colour))
            if x["label"] is not None:
                bump("label_checked")
                bump("status_" + x["label"].replace(" ", "_"))
                if status != x["label"]:
                    V(kind_for_mismatch or "label-differs", call=tag, index=i, entry=[e["t"], e["b"], e.get("large")], colour=repr(colour),
                      expected=x["label"], got=status)
            elif e.get("bg_rgb") is None:
                bump("label_skipped_alpha_bg")
            if kind_for_mismatch is None and len(vio) > n_before:
                failed_in_base.add(ek)
        return res

    def history_call(o):
        # not judged itself: it is history for the judged calls that follow
        op = {"op": "bulk", "pairs": _pairs(L), "mode": o["mode"], "vr": o["vr"], "as": trace["as"], "container": "list"}
        r = apiops.run_op(op, apiops.Ctx())
        events.append(("other-settings", o["mode"], o["vr"], r))
        bump("history_calls_with_other_settings")

    for o in trace.get("others") or ():
        if o["when"] == "first" and L:
            history_call(o)
    sc_used = []
    r0 = call(L, "base", None)
    derived = False
    if trace.get("derived") and L:
        derived = True
        call([L[i] for i in trace["perm"]], "permuted", "permutation")
        k = trace["split"]
        call(L[:k], "split-1", "concatenation")
        call(L[k:], "split-2", "concatenation")
        for pos in trace["positions"]:
            call(L[:pos] + [trace["poison"]] + L[pos:], "poison@%d" % pos, "insertion")
        call(L + L, "doubled", "repetition")
        if trace.get("threads") and len(L) >= 1:
            # two callers at once: the list and its permutation evaluated by two threads of this process under the seeded
            # baton-passing scheduler (pre-emption at line boundaries inside cm_colors); each must still get its own map
            import random as _random

            th = trace["threads"]
            lists = [L, [L[i] for i in trace["perm"]]]
            ops2 = [{"op": "bulk", "pairs": _pairs(x), "mode": mode, "vr": vr, "as": trace["as"], "container": "list"} for x in lists]
            outs = [None, None]

            def mk(i):
                def fn():
                    outs[i] = apiops.run_op(ops2[i], apiops.Ctx())
                return fn

            if th.get("schedule") is not None:
                sc = sched.Scheduler(2, schedule=th["schedule"], hot=None)
            else:
                sc = sched.Scheduler(2, rng=_random.Random("%d|sched" % th["seed"]), mean_gap=th["mean_gap"], p_hot=0.0, hot=None)
            try:
                sc.run([mk(0), mk(1)])
            except sched.StepCap:
                raise base.HarnessError("step cap exceeded")
            if sc.errors:
                raise base.HarnessError("client thread error: %r" % (sc.errors,))
            bump("concurrent_call_pairs")
            bump("context_switches", sum(1 for d in sc.decisions if d[3] not in ("start", "finish")))
            events.append(("concurrent", [(d[1], d[2], d[3]) for d in sc.decisions][:3000]))
            sc_used.append(sc)
            for i in (0, 1):
                call(lists[i], "concurrent-%d" % i, "concurrency", given=outs[i])
        call(L, "with-report", "report-variant", save=True)
        for o in trace.get("others") or ():
            if o["when"] == "middle":
                history_call(o)
        if trace.get("warn_window"):
            # the host runs with warnings turned into errors (python -W error, a strict test runner): the call must still
            # return one result per entry - an entry that cannot be parsed "does not disturb the other entries"
            import warnings as _warnings

            with _warnings.catch_warnings():
                _warnings.simplefilter("error")
                bump("calls_under_warnings_as_errors")
                call(L, "warnings-as-errors", "host-settings")
        r9 = call(L, "again", "repetition")
        if r0 is not None and r9 is not None and r0 != r9:
            V("repetition", call="again", first=repr(r0)[:300], second=repr(r9)[:300])
    # results handed to the caller earlier must still be what they were (no aliasing between calls)
    for k, (obj, snap) in enumerate(hold_ctx.held):
        bump("held_results_rechecked")
        if apiops.enc(obj) != snap:
            V("repetition", call="held-result-%d" % k, note="a list returned by an earlier call changed after later calls",
              at_return=repr(snap)[:300], now=repr(apiops.enc(obj))[:300])
            break
    ids = [id(o) for o, _ in hold_ctx.held]
    if len(set(ids)) < len(ids):
        V("repetition", note="two calls returned the very same list object")
    nontrivial = changed_any and (derived or any(e.get("poison") for e in L))
    explicit = None
    if vio and sc_used and trace["threads"].get("schedule") is None:
        explicit = copy.deepcopy(trace)
        explicit["threads"]["schedule"] = sc_used[0].explicit_schedule()  # replay and minimisation are PRNG-free
    return {"violations": vio, "digest": base.digest(events), "nontrivial": nontrivial, "stats": stats,
            "steps": stats.get("calls", 0), "skipped": skipped, "explicit": explicit}


# ---------------------------------------------------------------------------


def shrink(trace):
    n = len(trace["L"])
    if trace.get("derived"):
        t = copy.deepcopy(trace)
        t["derived"] = False
        yield t
    if trace.get("threads"):
        t = copy.deepcopy(trace)
        t["threads"] = None
        yield t
    if trace.get("warn_window"):
        t = copy.deepcopy(trace)
        t["warn_window"] = False
        yield t
    for k in range(len(trace.get("others") or ())):
        t = copy.deepcopy(trace)
        del t["others"][k]
        yield t
    if (trace.get("report_env") or {}).get("tmp_other_fs"):
        t = copy.deepcopy(trace)
        t["report_env"]["tmp_other_fs"] = False
        yield t
    for i in range(n):
        t = copy.deepcopy(trace)
        del t["L"][i]
        t["perm"] = sorted(range(n - 1), key=lambda j: trace["perm"].index(j if j < i else j + 1))
        t["split"] = min(t["split"], n - 1)
        t["positions"] = sorted({min(p, n - 1) for p in t["positions"]})
        yield t
    if len(trace["positions"]) > 1:
        for p in trace["positions"]:
            t = copy.deepcopy(trace)
            t["positions"] = [p]
            yield t
    if trace["perm"] != list(range(n)):
        t = copy.deepcopy(trace)
        t["perm"] = list(range(n))
        yield t
    if trace["mode"] is not None:
        t = copy.deepcopy(trace)
        t["mode"] = None
        yield t
    if trace["vr"]:
        t = copy.deepcopy(trace)
        t["vr"] = False
        yield t
    if trace["as"] != "tuple":
        t = copy.deepcopy(trace)
        t["as"] = "tuple"
        yield t
    for i, e in enumerate(trace["L"]):
        if e.get("large") is not None:
            t = copy.deepcopy(trace)
            t["L"][i]["large"] = None
            yield t
        for role in ("t", "b"):
            v = dec(e[role])
            rgb = refs.any_rgb(v)
            if rgb is not None and v != "#%02x%02x%02x" % rgb:
                t = copy.deepcopy(trace)
                t["L"][i][role] = "#%02x%02x%02x" % rgb
                yield t


def sample_view(trace, res):
    return {"mode": trace["mode"], "very_readable": trace["vr"], "entries": [[e["t"], e["b"], e.get("large")] for e in trace["L"]],
            "perm": trace["perm"], "split": trace["split"], "poison": [trace["poison"]["t"], trace["poison"]["b"]],
            "positions": trace["positions"], "digest": res["digest"], "stats": res["stats"]}
