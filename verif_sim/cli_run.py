"""One simulated invocation of the cm-colors command, in-process, behind all seams.

`cli_exec` is meant to be called inside a throw-away fork (base.in_fork) by the
CLI properties (C08, C09, C18), and directly by the history machine of C15.
"""
import os
import sys
import traceback

from . import seams
from .base import HarnessError

ANSI_RE = None


def strip_ansi(s):
    global ANSI_RE
    if ANSI_RE is None:
        import re

        ANSI_RE = re.compile(r"\x1b\[[0-9;]*[A-Za-z]")
    return ANSI_RE.sub("", s)


def cli_args(target, settings):
    a = []
    if target is not None:
        a.append(target)
    if settings.get("mode") is not None:
        a += ["--mode", str(settings["mode"])]
    if settings.get("premium"):
        a.append("--premium")
    if settings.get("default_bg") is not None:
        a += ["--default-bg", settings["default_bg"]]
    return a


def cli_exec(root, target_rel, settings, cwd_rel="cwd", order_key=None, faults=(), crash_io=None,
             tty=False, no_color=False, argform="abs", tmpdir_abs=None, in_thread=False, stderr_none=False):
    """Run the real click command against the sandbox `root`.

    target_rel: path of the file/dir argument relative to root (None = no argument: default ".").
    Returns a dict of plain data: exit, out, err, io (seam log), audit (write-intent events),
    fired (faults that actually fired), exc (traceback text for an escaped exception).
    Paths in out/err/io/audit are normalised: the sandbox root appears as <SBX>.
    """
    import click
    import cm_colors.cli.main as M
    import cm_colors.cli.html_report as H
    import cm_colors.core.visualiser as V

    root = os.path.realpath(root)
    cwd = os.path.join(root, cwd_rel)
    os.makedirs(cwd, exist_ok=True)
    for d in ("home", "tmp"):
        os.makedirs(os.path.join(root, d), exist_ok=True)
    old_cwd = os.getcwd()
    os.chdir(cwd)
    seams.set_terminal_env(root, no_color=no_color)
    if tmpdir_abs:
        os.makedirs(tmpdir_abs, exist_ok=True)
        os.environ["TMPDIR"] = tmpdir_abs  # the temp directory on ANOTHER file system than the stylesheets
        import tempfile

        tempfile.tempdir = None

    if target_rel is None or (argform == "noarg" and os.path.normpath(os.path.join(root, target_rel)) == os.path.normpath(cwd)):
        target = None  # no argument: the command's default path "." (= the working directory)
    else:
        tabs = os.path.normpath(os.path.join(root, target_rel))
        target = os.path.relpath(tabs, cwd) if argform == "rel" else tabs
    args = cli_args(target, settings)

    plan = seams.SimIOPlan(root, faults=faults, crash_io=crash_io)
    SimPath = seams.make_sim_path(order_key, plan.log, root)
    saved = (M.Path, M.__dict__.get("open"), H.__dict__.get("open"), V.__dict__.get("open"), sys.stdout, sys.stderr)
    out, err = seams.Rec(tty, "<stdout>"), seams.Rec(tty, "<stderr>")
    res = {"exit": None, "exc": None}
    M.Path = SimPath
    M.open = H.open = V.open = plan.open
    seams.patch_dir_listing(order_key)
    sys.stdout, sys.stderr = out, err
    audit = seams.audit_start(root)
    if stderr_none:
        sys.stderr = None  # what Python does when fd 2 is closed at start-up (cm-colors dir 2>&-, some daemon launchers)

    def invoke():
        try:
            rv = M.main.main(args=args, prog_name="cm-colors", standalone_mode=False)
            res["exit"] = 0 if rv in (None, 0) else rv
        except seams.SimCrash as e:
            res["exit"] = "crash"
            res["exc"] = str(e)
        except click.exceptions.Exit as e:
            res["exit"] = e.exit_code
        except click.exceptions.Abort:
            res["exit"] = 1
        except click.ClickException as e:
            try:
                e.show(file=err)
            except Exception:
                pass
            res["exit"] = e.exit_code
        except SystemExit as e:
            res["exit"] = e.code if isinstance(e.code, int) else (0 if e.code is None else 1)
        except Exception as e:  # an escaped exception = non-zero exit + traceback in real life
            res["exit"] = "raised"
            res["exc"] = "".join(traceback.format_exception(type(e), e, e.__traceback__)[-3:])

    try:
        if in_thread:
            # the command called from a thread that is not the main thread (a job runner, a web handler, a GUI worker)
            import threading

            th = threading.Thread(target=invoke, name="cli-caller")
            th.start()
            th.join()
        else:
            invoke()
    finally:
        try:
            res["cwd_after"] = os.path.realpath(os.getcwd()).replace(root, "<SBX>")
        except OSError:
            res["cwd_after"] = None
        res["cwd_before"] = os.path.realpath(cwd).replace(root, "<SBX>")
        seams.audit_stop()
        sys.stdout, sys.stderr = saved[4], saved[5]
        seams.unpatch_dir_listing()
        M.Path = saved[0]
        for mod, old in ((M, saved[1]), (H, saved[2]), (V, saved[3])):
            if old is None:
                mod.__dict__.pop("open", None)
            else:
                mod.open = old
        os.chdir(old_cwd)

    def norm(s):
        return s.replace(root, "<SBX>")

    res["out"] = norm(out.getvalue())
    res["err"] = norm(err.getvalue())
    res["io"] = [tuple(x) for x in plan.log]
    res["audit"] = [tuple(x) for x in audit]
    res["fired"] = list(plan.fired)
    res["n_open"] = plan.n_open
    res["args"] = [norm(a) for a in args]
    # 'Error processing <path>' names the path as the tool built it (relative when the argument was
    # relative): resolve against the cwd of the run so that callers always see <SBX>/...
    eps = []
    for p in error_paths(res["err"]):
        if not p.startswith("<SBX>") and not os.path.isabs(p):
            p = "<SBX>/" + os.path.relpath(os.path.normpath(os.path.join(cwd, p)), root)
        eps.append(p)
    res["err_paths"] = eps
    return res


def cli_exec_real(root, target_rel, settings, cwd_rel="cwd", argform="abs", locale_mode="C"):
    """The same invocation in a REAL interpreter: real open(), OS traversal order, pipes for stdio, and - the point
    of this mode - an environment the in-process simulation cannot fake: a non-UTF-8 locale (LC_ALL=C with
    PYTHONUTF8=0; stdio kept UTF-8 through PYTHONIOENCODING so that only FILE encodings depend on the locale).
    Returns the same dict shape as cli_exec (no seam log)."""
    import subprocess

    root = os.path.realpath(root)
    cwd = os.path.join(root, cwd_rel)
    for d in (cwd_rel, "home", "tmp"):
        os.makedirs(os.path.join(root, d), exist_ok=True)
    if target_rel is None or (argform == "noarg" and os.path.normpath(os.path.join(root, target_rel)) == os.path.normpath(cwd)):
        target = None
    else:
        tabs = os.path.normpath(os.path.join(root, target_rel))
        target = os.path.relpath(tabs, cwd) if argform == "rel" else tabs
    args = cli_args(target, settings)
    env = dict(os.environ, HOME=os.path.join(root, "home"), TMPDIR=os.path.join(root, "tmp"), COLUMNS="80", LINES="24",
               TERM="xterm-256color", PYTHONIOENCODING="utf-8")
    for v in seams.TERM_VARS:
        if v not in ("COLUMNS", "LINES", "TERM"):
            env.pop(v, None)
    if locale_mode == "C":
        env.update(LC_ALL="C", LANG="C", PYTHONUTF8="0")
        env.pop("PYTHONCOERCECLOCALE", None)
        env["PYTHONCOERCECLOCALE"] = "0"
    else:
        env.update(LC_ALL="C.UTF-8", LANG="C.UTF-8")
    p = subprocess.run([sys.executable, "-m", "cm_colors.cli.main"] + args, cwd=cwd, env=env, capture_output=True, timeout=240)
    out = p.stdout.decode("utf-8", "replace").replace(root, "<SBX>")
    err = p.stderr.decode("utf-8", "replace").replace(root, "<SBX>")
    res = {"exit": p.returncode if p.returncode in (0, 1, 2) else "raised", "exc": None, "out": out, "err": err, "io": [], "audit": [], "fired": [],
           "n_open": 0, "args": [a.replace(root, "<SBX>") for a in args]}
    if p.returncode == 1 and "Traceback" in err:
        res["exit"] = "raised"
        res["exc"] = err[-600:]
    eps = []
    for q in error_paths(err):
        if not q.startswith("<SBX>") and not os.path.isabs(q):
            q = "<SBX>/" + os.path.relpath(os.path.normpath(os.path.join(cwd, q)), root)
        eps.append(q)
    res["err_paths"] = eps
    return res


def parse_stdout(out):
    """Parse the CLI summary. Returns dict(processing, A, T, F, failed=[(file, selector)], report, tail)."""
    import re

    txt = strip_ansi(out)
    r = {"processing": None, "A": 0, "T": 0, "F": 0, "failed": [], "reasons": [], "report": None, "nofiles": False}
    lines = txt.split("\n")
    for ln in lines:
        m = re.match(r"Processing (\d+) files\.\.\.$", ln)
        if m:
            r["processing"] = int(m.group(1))
        if ln == "No CSS files found.":
            r["nofiles"] = True
        m = re.match(r"✓ (\d+) color pairs already readable$", ln)
        if m:
            r["A"] = int(m.group(1))
        m = re.match(r"✓ (\d+) color pairs adjusted for better readability$", ln)
        if m:
            r["T"] = int(m.group(1))
        m = re.match(r"✗ (\d+) color pairs need your attention$", ln)
        if m:
            r["F"] = int(m.group(1))
        m = re.match(r"Could not tune (\d+) color pairs:$", ln)
        if m:
            r["F_list_header"] = int(m.group(1))
        m = re.match(r"  (\S.*?) -> (.*)$", ln)
        if m and not ln.startswith("    "):
            r["failed"].append((m.group(1), m.group(2)))
        m = re.match(r"    Reason: (.*)$", ln)
        if m:
            r["reasons"].append(m.group(1))
        m = re.match(r"Report generated: (.*)$", ln)
        if m:
            r["report"] = m.group(1)
    return r


def error_paths(err):
    """Paths named in 'Error processing <path>: ...' lines of stderr (sandbox-normalised)."""
    import re

    res = []
    for ln in strip_ansi(err).split("\n"):
        m = re.match(r"Error processing (.+?): ", ln)
        if m:
            res.append(m.group(1))
    return res
