"""C15 - results are pure functions of the arguments: no history or thread dependence.

Three engines, chosen by run index (DESIGN 4, C15):
  H  histories: 5-40 operations in one process (API calls with any settings incl. show/save,
     bulk runs, in-process CLI runs, object re-use); EVERY operation is a probe whose result
     must equal the result of the same operation in a pristine forked process.
  T  thread schedules: 2-4 real client threads under the deterministic baton-passing scheduler
     (sched.py); every client's results must equal the pristine results; a shared ColorPair
     must stay unchanged.
  P  processes: operations re-evaluated in brand-new interpreters under other PYTHONHASHSEEDs.
"""
import copy
import json
import os
import subprocess
import sys

from . import apiops, base, cli_run, gen, refs, sched, seams
from .apiops import dec, enc
from .base import stream

ID = "C15"
LEVEL = "exploration"
BUDGET = {"quick": 50.0, "thorough": 900.0}
CHUNK = 4
RUN_TIMEOUT = 400.0
SELFTEST_RUNS = 3
RULE = ("runs are of three kinds by index: H = a seeded history of 5-40 operations in one process (construct, is_readable, make_readable "
        "with any mode/very_readable/show/save_report, make_readable_bulk, in-process CLI runs over small generated trees, re-use of one "
        "ColorPair object with different settings), every operation compared with the same operation in a pristine forked process; "
        "T = 2-4 real threads x 1-3 pure operations under the seeded baton-passing scheduler (pre-emption at line events inside cm_colors, "
        "hot lines from a bytecode scan), per run either different pairs, equal pairs or one shared ColorPair object; P = operations "
        "re-evaluated in fresh interpreters under other PYTHONHASHSEEDs. Non-trivial: H = >= 1 operation changed a colour and >= 1 later "
        "probe; T = >= 1 context switch inside a cm_colors call; P = >= 1 colour-changing operation. Distinct = distinct digest of the "
        "event log (H: op list + results; T: switch sequence (from, to, file:line) + results).")
ASSUMPTIONS = [
    "the oracle is the same code under the empty history (a forked process in which no cm_colors function has run), which is the property's own right-hand side",
    "pre-emption happens at line boundaries inside cm_colors frames only; a race confined to one source line is not explored",
    "the scheduler does not model locks: cm_colors takes none; a stall is a HARNESS-ERROR, never a verdict",
    "text results embedding the sandbox path are normalised to <SBX>",
]
PROBES = ["H_runs", "H_ops", "H_probes_after_change", "H_cli_ops", "H_bulk_ops", "H_show_save_ops", "H_slot_reuse", "H_repeat_same_op", "H_alias_family_ops", "H_bulk_position_probes", "H_cli_file_position_probes", "H_cli_rule_position_probes", "H_flood_ops", "H_aborted_bulk_ops", "H_heavy_distinct_fix_ops", "H_fed_back_result_ops", "H_host_warning_filter_windows", "H_ops_under_warnings_as_errors", "H_clock_jump_windows", "H_host_locale_C_windows", "T_runs_under_jumping_clock",
          "T_runs", "T_threads", "T_ops", "T_steps", "T_switches", "T_hot_line_hits", "T_switch_in_optimisation", "T_mode_different",
          "T_mode_same", "T_mode_shared_object", "T_runs_with_switch_inside_call", "T_shared_object_first_touch_in_threads", "P_runs", "P_ops", "P_interpreters", "P_interpreters_sharing_home_and_tmp", "H_cli_ops_over_an_already_processed_directory"]


# ---------------------------------------------------------------------------
# operation generators


def _pair(rng, vr=False, cheap=False):
    bg = gen.rand_rgb(rng)
    large = rng.random() < 0.25
    thr = refs.target_ratio(premium=vr, large=large)
    if rng.random() < 0.06:
        large = rng.choice((1, 1, None) if large else (0, None, None))  # a truthy / falsy flag that is not a bool
    band = rng.choice(("pass", "pass-hair", "fix", "fix", "fix-hair", "mid", "hard", "same", "random")) if not cheap else \
        rng.choice(("pass", "fix-hair", "fix", "fix", "pass-hair", "mid"))
    trgb, _ = gen.pick_text(rng, bg, thr, band)
    if rng.random() < 0.15:
        t = gen.spell_alpha(rng, trgb, rng.choice((0.25, 0.5, 0.9, 1.0)))[0]
    else:
        t = gen.spell(rng, trgb, gen.CSS_SPELLINGS + gen.API_ONLY_SPELLINGS + (gen.EXOTIC_API_SPELLINGS if rng.random() < 0.3 else ()))[0]
    b = gen.spell(rng, bg, gen.CSS_SPELLINGS + gen.API_ONLY_SPELLINGS + (gen.EXOTIC_API_SPELLINGS if rng.random() < 0.2 else ()))[0]
    if rng.random() < 0.12:
        b = gen.spell_alpha(rng, bg, rng.choice((0.1, 0.5, 0.9)))[0]  # translucent background (composited over white)
    if rng.random() < 0.06:
        t = rng.choice(gen.POISON_STR + gen.POISON_OBJ)
    elif rng.random() < 0.05:
        t = rng.choice(gen.NEAR_CSS)
    return enc(t), enc(b), large


def _pure_op(rng, cheap=False):
    m = rng.random()
    mode = rng.choice((0, 0, 1, 1, None) if cheap else (0, 1, 1, 2, None))
    vr = rng.random() < 0.35
    if m < 0.1:
        t, b, large = _pair(rng)
        return {"op": "color", "v": rng.choice((t, b))}
    if m < 0.2:
        t, b, large = _pair(rng)
        return {"op": "pair", "t": t, "b": b, "large": large}
    if m < 0.8:
        t, b, large = _pair(rng, vr, cheap)
        return {"op": "make", "t": t, "b": b, "large": large, "mode": mode, "vr": vr}
    pairs = []
    for _ in range(rng.randint(0, 4)):
        t, b, large = _pair(rng, vr, cheap)
        pairs.append([t, b] if rng.random() < 0.5 else [t, b, large if rng.random() < 0.5 else True])
    return {"op": "bulk", "pairs": pairs, "mode": mode, "vr": vr}


def _cli_op(rng):
    settings = {"mode": rng.choice((0, 1, 1, None))}
    if rng.random() < 0.3:
        settings["premium"] = True
    if rng.random() < 0.3:
        settings["default_bg"] = rng.choice(("black", "#222", "navy"))
    tree = {}
    if rng.random() < 0.15:
        # nothing to process: empty directory, only outputs of an earlier run, or no stylesheet at all
        tree = rng.choice(({}, {"a_cm.css": ".a{color:#777}"}, {"notes.txt": "x"}, {"sub/x_cm.css": ".a{color:#777}", "readme.md": "#"}))
        settings["default_bg"] = rng.choice(("black", "#222", "navy", "rgb(20, 30, 40)"))
        return {"op": "cli", "tree": tree, "settings": settings, "order_key": rng.randrange(1 << 20)}
    names = rng.sample(("a.css", "b.css", "sub/c.css"), rng.randint(1, 2))
    if rng.random() < 0.1:
        names = ["comp%02d.css" % k for k in range(rng.randint(8, 14))]  # a component library: many small stylesheets in one run
    for name in names:
        feats = gen.draw_features(rng, ("vars", "var-shared", "var-fallback", "var-undefined", "nesting", "important", "keywords", "comments", "non-ascii"), 0.35)
        txt = gen.render(gen.gen_sheet(rng, feats, settings, max_rules=3))
        # state that could leak from one in-process CLI run into a later one: custom properties defined
        # in one run's stylesheet and only referenced in another's
        m = rng.random()
        if m < 0.3:
            txt = ":root{--undefined0:%s;--undefined1:%s;--x-shared:%s}\n" % tuple(gen.spell(rng, gen.rand_rgb(rng))[0] for _ in range(3)) + txt
        elif m < 0.6:
            txt += "\n.xref%d{color:%s}" % (rng.randrange(50), rng.choice(("var(--x-shared)", "var(--x-shared, #777)", "var(--undefined0, #767676)", "var(--undefined1)")))
        if rng.random() < 0.3:
            # one of a few text colours, sometimes as the fallback of an undefined custom property with an annotation inside the
            # value: whatever a CLI run keeps per replacement colour while rewriting such a declaration must not reach later runs
            col = rng.choice(("#777777", "#777777", "#999999", "#8a8a8a"))
            txt += "\n.cmt%d{color:%s}" % (rng.randrange(50), rng.choice(("/* brand */ var(--cmt-undefined, %s)", "var(--cmt-undefined, %s) /* muted */", "%s", "%s")) % col)
        if rng.random() < 0.2:
            txt = "\ufeff" + txt  # saved by an editor that writes a byte-order mark
        if rng.random() < 0.3:
            # a page background declared in the stylesheet itself (it is not what --default-bg is about)
            txt = "%s{background-color:%s}\n" % (rng.choice(("body", "html", ":root", "html, body")), rng.choice(("#111111", "#0b1020", "#fefefe", "navy", "rgb(30, 30, 30)"))) + txt
        tree[name] = txt
    if rng.random() < 0.12:
        # one file of the run cannot be read as UTF-8 (a legacy cp1252 stylesheet): reported and skipped
        tree[rng.choice(("legacy.css", "sub/old.css", "0bad.css"))] = "HEX:2f2a20e9202a2f0a2e617b636f6c6f723a233737377d0a"
    op = {"op": "cli", "tree": tree, "settings": settings, "order_key": rng.randrange(1 << 20)}
    if rng.random() < 0.25:
        # the directory was already processed once, with other settings (its outputs and report are still there)
        ps = {"mode": rng.choice((0, 1, 2, None))}
        if rng.random() < 0.5:
            ps["premium"] = True
        if rng.random() < 0.3:
            ps["default_bg"] = rng.choice(("black", "#222", "navy", "white"))
        op["prior_settings"] = ps
    return op


def generate(rseed, tier, idx):
    g = stream(rseed, "gen")
    s = stream(rseed, "sched")
    k = idx % 8
    if k < 4:
        n = g.randint(5, 40 if tier == "thorough" else 16)
        ops = []
        nslots = 0
        cli_heavy = g.random() < 0.25
        for i in range(n):
            m = g.random()
            if cli_heavy and g.random() < 0.3:
                ops.append(_cli_op(g))
                continue
            if m < 0.55:
                op = _pure_op(g)
                if op["op"] == "make":
                    r = g.random()
                    if r < 0.12:
                        op["show"] = True
                    elif r < 0.24:
                        op["save"] = True
                if op["op"] == "bulk" and g.random() < 0.15:
                    op["save"] = True
                ops.append(op)
            elif m < 0.65:
                ops.append(_cli_op(g))
            elif m < 0.75 and ops:
                ops.append(copy.deepcopy(g.choice(ops)))  # the very same operation again, later
                ops[-1]["again"] = True
            elif m < 0.85 or nslots == 0:
                t, b, large = _pair(g)
                ops.append({"op": "newpair", "slot": nslots, "t": t, "b": b, "large": large})
                nslots += 1
            else:
                op = {"op": g.choice(("make_on", "make_on", "make_on", "readable_on")), "slot": g.randrange(nslots)}
                if op["op"] == "make_on":
                    op["mode"] = g.choice((0, 1, 1, 2, None))
                    op["vr"] = g.random() < 0.35
                    k2 = g.random()
                    if k2 < 0.15:
                        op["show"] = True
                    elif k2 < 0.3:
                        op["save"] = True
                ops.append(op)
        if g.random() < 0.35:
            # one ColorPair object re-used for a burst of calls with different settings (retry flows such as
            # "default mode, then relaxed", "readable, then very readable"), on a pair that is hard to fix
            bg = gen.rand_rgb(g)
            trgb, _ = gen.pick_text(g, bg, 4.5, g.choice(("hard", "same", "mid", "fix")))
            slot = nslots
            nslots += 1
            burst = [{"op": "newpair", "slot": slot, "t": enc(gen.spell(g, trgb, gen.CSS_SPELLINGS + gen.API_ONLY_SPELLINGS + ("tuple", "list", "tuple"))[0]),
                      "b": enc(gen.spell(g, bg, gen.CSS_SPELLINGS)[0]), "large": g.random() < 0.3}]
            for _ in range(g.randint(3, 6)):
                burst.append({"op": g.choice(("make_on", "make_on", "make_on", "readable_on")), "slot": slot})
                if burst[-1]["op"] == "make_on":
                    burst[-1].update(mode=g.choice((0, 1, 1, 2, 2, None)), vr=g.random() < 0.4)
                    if g.random() < 0.25:
                        burst[-1][g.choice(("save", "show"))] = True
            pos = g.randrange(len(ops) + 1)
            ops[pos:pos] = burst
        if g.random() < 0.2:
            # a flood of cheap, distinct, already-readable pairs: fills or evicts any bounded cache between two probes
            k = g.randrange(1 << 20)
            flood = [[enc("#%06x" % ((k + 7919 * j) % (1 << 24) & 0x3f3f3f)), enc("#ffffff")] for j in range(g.choice((40, 150, 300)))]
            ops.insert(g.randrange(len(ops) + 1), {"op": "bulk", "pairs": flood, "mode": 0, "vr": False, "flood": True})
        if g.random() < 0.04:
            # VOLUME: a few hundred DISTINCT pairs that all need fixing (strict mode, cheap) - anything bounded by
            # "so many distinct colours / fixes per process" (cache capacity, eviction, housekeeping) is crossed here
            heavy = []
            for j in range(g.choice((350, 550))):
                bg = gen.rand_rgb(g)
                trgb, _ = gen.pick_text(g, bg, 4.5, g.choice(("fix", "mid")))
                heavy.append([enc("#%02x%02x%02x" % trgb), enc("#%02x%02x%02x" % bg)])
            ops.insert(g.randrange(max(1, len(ops) // 2)), {"op": "bulk", "pairs": heavy, "mode": g.choice((0, 1, 1)), "vr": False, "flood": True, "heavy": True})
        if g.random() < 0.3:
            # one translucent text spelling on different backgrounds at different points of the history
            txt = enc(gen.spell_alpha(g, gen.rand_rgb(g), g.choice((0.25, 0.5, 0.75)), g.choice(gen.ALPHA_SPELLINGS))[0])
            for _ in range(g.randint(2, 3)):
                _t, b0, large0 = _pair(g)
                ops.insert(g.randrange(len(ops) + 1), {"op": g.choice(("make", "pair")), "t": txt, "b": b0, "large": large0, "mode": g.choice((0, 1, None)), "vr": False, "alias": True})
        if g.random() < 0.4:  # members of one alias family at different points of the history, same settings
            fam = gen.alias_family(g)
            t0, b0, large0 = _pair(g)
            role = g.choice(("t", "t", "b"))
            mode, vr = g.choice((0, 1, None)), g.random() < 0.3
            kind = g.choice(("make", "make", "pair", "bulk"))
            for mem in fam:
                tt, bb = (enc(mem), b0) if role == "t" else (t0, enc(mem))
                if kind == "make":
                    op = {"op": "make", "t": tt, "b": bb, "large": large0, "mode": mode, "vr": vr, "alias": True}
                elif kind == "pair":
                    op = {"op": "pair", "t": tt, "b": bb, "large": large0, "alias": True}
                else:
                    op = {"op": "bulk", "pairs": [[tt, bb]], "mode": mode, "vr": vr, "alias": True}
                ops.insert(g.randrange(len(ops) + 1), op)
        if g.random() < 0.3:
            # the same OPAQUE text colour on several backgrounds at different points of the history, the first of them
            # (nearly) the text colour itself, so that the first fix gets stuck or fails: whatever a failed search leaves behind
            # is keyed, if at all, by this colour
            trgb = gen.rand_rgb(g)
            tsp = enc(gen.spell(g, trgb, ("hex6", "rgb", "hex6"))[0])
            near = tuple(max(0, min(255, c + g.choice((-40, -25, -10, 10, 25, 40)))) for c in trgb)
            bgs = [near] + [g.choice(((255, 255, 255), (0, 0, 0), gen.rand_rgb(g), gen.rand_rgb(g))) for _ in range(g.randint(1, 3))]
            pos = sorted(g.randrange(len(ops) + 1) for _ in bgs)
            md = g.choice((1, 1, None, 2))
            for k, (bgc, at) in enumerate(zip(bgs, pos)):
                ops.insert(at + k, {"op": "make", "t": tsp, "b": enc("#%02x%02x%02x" % tuple(bgc)), "large": False, "mode": md, "vr": False, "alias": True})
        if g.random() < 0.3:
            # the same two colours asked again as the OTHER kind of text (large flag flipped) and the other strictness: whatever
            # is remembered per pair must be remembered per size and target too
            mk = [i for i, o in enumerate(ops) if o["op"] == "make" and isinstance(o.get("large"), bool)]
            if mk:
                src = ops[g.choice(mk)]
                twin = {"op": "make", "t": src["t"], "b": src["b"], "large": not src["large"], "mode": src.get("mode"),
                        "vr": not src.get("vr", False), "alias": True}
                ops.insert(g.randrange(len(ops) + 1), twin)
        if g.random() < 0.25:
            # "feed the result back": the text of a later call is the colour an earlier make call returned
            mk = [i for i, o in enumerate(ops) if o["op"] == "make"]
            if mk:
                src = g.choice(mk)
                _t, b2, large2 = _pair(g)
                fu = {"op": "make", "t": ops[src]["t"], "t_from_op": base.digest({k: v for k, v in ops[src].items() if k not in ("again", "alias", "show", "save")}),
                      "b": g.choice((ops[src]["b"], b2)), "large": ops[src].get("large", False), "mode": g.choice((0, 1, None, 2)), "vr": g.random() < 0.6}
                ops.insert(g.randrange(src + 1, len(ops) + 1), fu)
        if g.random() < 0.3:
            # one modern / unusual CSS spelling (accepted or rejected - either way always the same answer) at several points
            # of the history, next to an ordinary colour of the same family
            txt = g.choice(gen.NEAR_CSS)
            for _ in range(g.randint(2, 3)):
                _t, b0, large0 = _pair(g)
                role = g.choice(("t", "t", "b"))
                kind = g.choice(("make", "pair", "color", "bulk"))
                tt, bb = (enc(txt), b0) if role == "t" else (_t, enc(txt))
                if kind == "make":
                    op = {"op": "make", "t": tt, "b": bb, "large": large0, "mode": g.choice((0, 1, None)), "vr": False, "alias": True}
                elif kind == "pair":
                    op = {"op": "pair", "t": tt, "b": bb, "large": large0, "alias": True}
                elif kind == "color":
                    op = {"op": "color", "v": enc(txt), "alias": True}
                else:
                    op = {"op": "bulk", "pairs": [[_t, b0], [tt, bb]], "mode": g.choice((0, 1, None)), "vr": False, "alias": True}
                ops.insert(g.randrange(len(ops) + 1), op)
            if g.random() < 0.5:
                hs = gen.hsl_spelling(gen.rand_rgb(g))
                ops.insert(g.randrange(len(ops) + 1), {"op": "color", "v": enc(hs), "alias": True})
        if g.random() < 0.25:
            # an ABORTED bulk call (the caller's data source raises part-way, or an entry of the wrong arity stops the call
            # with an exception after earlier entries were processed), and later the same pairs asked again one by one under
            # OTHER settings: whatever a call sets up for its own duration must be gone when it ends by an exception
            ab = []
            for _ in range(g.randint(1, 3)):
                bg = gen.rand_rgb(g)
                trgb, _ = gen.pick_text(g, bg, 4.5, g.choice(("fix", "fix", "mid", "hard")))
                ab.append([enc("#%02x%02x%02x" % trgb), enc("#%02x%02x%02x" % bg)])
            m1, v1 = g.choice((0, 1, 1, 2)), g.random() < 0.4
            bop = {"op": "bulk", "pairs": copy.deepcopy(ab), "mode": m1, "vr": v1, "aborted": True}
            if g.random() < 0.5:
                bop["container"] = "gen-raise"
                bop["raise_at"] = len(ab)
            else:
                bop["pairs"].append([g.choice((ab[0][0], enc("#123456")))])  # one element: cannot be unpacked into (text, bg)
            at = g.randrange(len(ops) + 1)
            ops.insert(at, bop)
            for t1, b1 in ab:
                m2 = g.choice([m for m in (0, 1, 2) if m != m1])
                ops.insert(g.randrange(at + 1, len(ops) + 1),
                           {"op": "make", "t": t1, "b": b1, "large": False, "mode": m2, "vr": (not v1) if g.random() < 0.5 else v1, "alias": True})
        if g.random() < 0.25:
            # the HOST changes process-wide interpreter settings between calls (a test runner or an application that turns
            # warnings into errors, python -W error): a window of pure operations runs under that setting
            pos = g.randrange(len(ops) + 1)
            window = [{"op": "env", "what": g.choice(("warnings-error", "warnings-error", "warnings-always", "clock-jumps", "clock-jumps", "locale-c", "locale-c")),
                       "seed": g.randrange(1 << 30)}]
            if window[0]["what"] == "locale-c":
                window.append(_cli_op(g))  # (a stylesheet written while the host has switched the process locale to "C")
            for _ in range(g.randint(2, 5)):
                op = _pure_op(g)
                if op["op"] == "make" and g.random() < 0.6:
                    op["large"] = True
                window.append(op)
            window.append({"op": "env", "what": "warnings-reset"})
            ops[pos:pos] = window
        return {"prop": ID, "engine": "H", "ops": ops}
    if k < 7:
        nthreads = g.choice((2, 2, 3, 3, 4))
        sharing = g.choice(("different", "same", "shared-object"))
        clients = []
        if sharing == "different":
            for _ in range(nthreads):
                clients.append([_pure_op(g, cheap=g.random() < 0.8) for _ in range(g.randint(1, 3))])
            if g.random() < 0.3:
                fam = gen.alias_family(g)
                t0, b0, large0 = _pair(g, cheap=True)
                for k, mem in enumerate(fam[:nthreads]):
                    clients[k].insert(g.randrange(len(clients[k]) + 1), {"op": "make", "t": enc(mem), "b": b0, "large": large0, "mode": 0, "vr": False})
        elif sharing == "same":
            ops = [_pure_op(g, cheap=g.random() < 0.8) for _ in range(g.randint(1, 2))]
            clients = [copy.deepcopy(ops) for _ in range(nthreads)]
        else:
            t, b, large = _pair(g, cheap=True)
            if g.random() < 0.3:
                t = enc(gen.spell_alpha(g, gen.rand_rgb(g), 0.5, g.choice(gen.ALPHA_SPELLINGS))[0])
            for _ in range(nthreads):
                cl = []
                for _ in range(g.randint(1, 3)):
                    if g.random() < 0.8:
                        cl.append({"op": "make_on", "slot": 0, "mode": g.choice((0, 1, 1, None)), "vr": g.random() < 0.4})
                    else:
                        cl.append({"op": "readable_on", "slot": 0})
                clients.append(cl)
        tr = {"prop": ID, "engine": "T", "sharing": sharing, "clients": clients, "sched_seed": s.randrange(1 << 62),
              "mean_gap": s.choice((50, 500, 5000, 50000)), "p_hot": s.choice((0.0, 0.2, 0.6)), "schedule": None,
              "sim_clock": s.random() < 0.3}
        if sharing == "shared-object":
            tr["shared"] = {"t": t, "b": b, "large": large}
            tr["shared_untouched"] = g.random() < 0.6
        return tr
    ops = [_pure_op(g) for _ in range(8)]
    mk = [o for o in ops if o["op"] == "make" and isinstance(o.get("large"), bool)]
    if mk and g.random() < 0.6:
        src = g.choice(mk)
        ops.insert(g.randrange(len(ops) + 1), {"op": "make", "t": src["t"], "b": src["b"], "large": not src["large"], "mode": src.get("mode"),
                                                 "vr": not src.get("vr", False)})
    return {"prop": ID, "engine": "P", "ops": ops, "hashseeds": [g.randrange(1, 1 << 31), 0], "shared_machine": True}


# ---------------------------------------------------------------------------
# CLI as an in-process operation


def run_cli_op(op):
    root = base.new_sandbox("c15cli")
    try:
        tdir = os.path.join(root, "tree")
        os.makedirs(tdir, exist_ok=True)
        for name in sorted(op["tree"]):
            p = os.path.join(tdir, name)
            os.makedirs(os.path.dirname(p), exist_ok=True)
            with open(p, "wb") as f:
                v = op["tree"][name]
                f.write(bytes.fromhex(v[4:]) if v.startswith("HEX:") else v.encode("utf-8"))
        if op.get("prior_settings"):
            cli_run.cli_exec(root, "tree", op["prior_settings"], cwd_rel="cwd", order_key=op.get("order_key"))
            # (the earlier run's REPORT is removed: a run that changes nothing writes no report and rightly leaves an old one alone)
            try:
                os.unlink(os.path.join(root, "cwd", "cm_colors_report.html"))
            except OSError:
                pass
        res = cli_run.cli_exec(root, "tree", op["settings"], cwd_rel="cwd", order_key=op.get("order_key"))
        snap = seams.snapshot(root)
        files = {k: (v[1].decode("utf-8", "replace") if v[0] == "f" else list(v)) for k, v in snap.items()
                 if k.endswith("_cm.css") or k.endswith("cm_colors_report.html")}
        out = {"ret": enc([res["exit"], res["out"], res["err"], sorted(files.items())])}
        if res.get("cwd_after") != res.get("cwd_before"):
            out["cwd_moved"] = [res.get("cwd_before"), res.get("cwd_after")]
        return out
    finally:
        base.rm_tree(root)


def _run_any(op, ctx, root):
    sop = {k: v for k, v in op.items() if k not in ("again", "alias", "flood", "heavy", "aborted", "t_from_op")}
    if sop["op"] == "cli":
        return run_cli_op(sop)
    with apiops.Effects(root) as fx:
        r = apiops.run_op(sop, ctx)
    return r


def _oracle_any(op, cache):
    k = base.canon(op)
    if k not in cache:
        if op["op"] == "cli":
            cache[k] = base.in_fork(run_cli_op, op, timeout=200)
        else:
            cache[k] = apiops.oracle(op, {})
    return cache[k]


# ---------------------------------------------------------------------------


def execute(trace):
    eng = trace["engine"]
    if eng == "H":
        return _exec_H(trace)
    if eng == "T":
        return _exec_T(trace)
    return _exec_P(trace)


def _colour_changed(op, r):
    try:
        if op["op"] in ("make", "make_on") and "ret" in r:
            col, ok = dec(r["ret"])
            if col is None:
                return False
            if op["op"] == "make":
                src = refs.any_rgb(dec(op["t"]), over=refs.any_rgb(dec(op["b"]), over=(255, 255, 255)))
                return refs.any_rgb(col) != src
            return True
        if op["op"] in ("bulk", "cli"):
            return True
    except Exception:
        return False
    return False



def _literal_rule_probes(op):
    """For an in-process CLI operation: up to two top-level rules per stylesheet whose text colour (and background, if any)
    are literals, each with the stylesheet reduced to the :root/html blocks plus that rule alone.  What the tool writes for
    such a rule must not depend on the rules processed before it (they are history)."""
    import tinycss2

    out = []
    for name in sorted(op["tree"]):
        text = op["tree"][name]
        if text.startswith("HEX:") or not name.endswith(".css") or name.endswith("_cm.css"):
            continue
        text = text.lstrip("\ufeff")
        try:
            rules = tinycss2.parse_stylesheet(text, skip_whitespace=True, skip_comments=True)
        except Exception:
            continue
        roots, cands, sels = [], [], {}
        for rl in rules:
            if rl.type != "qualified-rule":
                continue
            sel = tinycss2.serialize(rl.prelude).strip()
            sels[sel] = sels.get(sel, 0) + 1
            if sel in (":root", "html"):
                roots.append(rl)
                continue
            decls = [d for d in tinycss2.parse_declaration_list(rl.content, skip_whitespace=True, skip_comments=True) if d.type == "declaration"]
            cols = [d for d in decls if d.lower_name == "color"]
            bgs = [d for d in decls if d.lower_name == "background-color"]
            if len(cols) == 1 and len(bgs) <= 1 and not any("var(" in tinycss2.serialize(d.value).lower() for d in cols + bgs):
                cands.append((sel, rl))
        cands = [(sel, rl) for sel, rl in cands if sels[sel] == 1]
        for sel, rl in cands[:1] + (cands[-1:] if len(cands) > 1 else []):
            alone_text = tinycss2.serialize(roots + [rl]) if all(x.source_line <= rl.source_line for x in roots) else tinycss2.serialize([rl] + roots)
            out.append((name, sel, {"op": "cli", "tree": {name: alone_text}, "settings": op["settings"], "order_key": op.get("order_key")}))
    return out


def _written_colour(files, name, sel):
    ent = files.get("tree/" + name[:-4] + "_cm.css")
    if not isinstance(ent, str):
        return ("no-output",)
    infos, _p = refs.analyse(ent.lstrip("\ufeff"), "white")
    hits = [ri for ri in infos if ri.selector == sel and ri.depth == 0]
    if len(hits) != 1:
        return ("rule-count", len(hits))
    return ("colour", hits[0].color_value)


def _exec_H(trace):
    events, vio, stats = [], [], {}

    def bump(k, n=1):
        stats[k] = stats.get(k, 0) + n

    cache = {}
    model = apiops.Ctx()
    expect = []
    trace = dict(trace, ops=copy.deepcopy(trace["ops"]))  # (fed-back texts are filled in below, on a private copy)
    returned = {}
    for op in trace["ops"]:
        if op.get("t_from_op") is not None and returned.get(op["t_from_op"]) is not None:
            op["t"] = returned[op["t_from_op"]]  # the colour the earlier call returns in a pristine process
            bump("H_fed_back_result_ops")
        sop = {k: v for k, v in op.items() if k not in ("again", "alias", "flood", "heavy", "aborted", "t_from_op")}
        if sop["op"] == "env":
            expect.append((sop, None))
            continue
        if sop["op"] == "newpair":
            model.slot_spec[sop["slot"]] = {"t": sop["t"], "b": sop["b"], "large": sop.get("large", False)}
        # (a directory that was processed before must give what a never-processed copy of it gives)
        eq = {k: v for k, v in sop.items() if k != "prior_settings"} if sop["op"] == "cli" else apiops.fresh_equivalent(sop, model)
        expect.append((eq, _oracle_any(eq, cache)))
        if sop.get("prior_settings"):
            bump("H_cli_ops_over_an_already_processed_directory")
        if sop["op"] == "make" and "ret" in expect[-1][1]:
            got = dec(expect[-1][1]["ret"])
            if isinstance(got, tuple) and len(got) == 2 and got[0] is not None:
                returned[base.digest({k: v for k, v in sop.items() if k not in ("show", "save")})] = enc(got[0])
    # one-entry bulk oracles are evaluated lazily in forks of THIS process; to keep them pristine they are
    # computed before the history starts
    cache_one = {}
    for op in trace["ops"]:
        if op["op"] == "bulk" and len(op["pairs"]) > 1 and not op.get("save") and not op.get("flood"):
            for entry in op["pairs"]:
                apiops.oracle({"op": "bulk", "pairs": [entry], "mode": op.get("mode"), "vr": op.get("vr")}, cache_one)
    # "at any position": a stylesheet processed as one of several in a CLI run must come out as when it is processed alone
    # (its position in the run, and what was processed before it, are history); alone-runs are taken now, in pristine forks
    cli_alone = {}
    for op in trace["ops"]:
        if op["op"] == "cli" and 2 <= len(op["tree"]) <= 4 and not op.get("prior_settings"):
            for name in sorted(op["tree"]):
                if name.endswith(".css") and not name.endswith("_cm.css"):
                    one = {"op": "cli", "tree": {name: op["tree"][name]}, "settings": op["settings"], "order_key": op.get("order_key")}
                    cli_alone[base.canon(one)] = base.in_fork(run_cli_op, one, timeout=200)
    rule_alone = {}
    for op in trace["ops"]:
        if op["op"] == "cli" and not op.get("prior_settings") and len(op["tree"]) <= 2:
            for name, sel, one in _literal_rule_probes(op):
                ref = base.in_fork(run_cli_op, one, timeout=200)
                if "ret" in ref:
                    rule_alone[base.canon([one, sel])] = _written_colour(dict((k, v) for k, v in dec(ref["ret"])[3]), name, sel)
    root = base.new_sandbox("c15h")
    changed_seen = False
    nontrivial = False
    try:
        ctx = apiops.Ctx()
        bump("H_runs")
        warn_cm = None
        strict_warnings = False
        sim_clock = False
        saved_locale = None
        for i, op in enumerate(trace["ops"]):
            if op["op"] == "env":
                import warnings

                if warn_cm is not None:
                    warn_cm.__exit__(None, None, None)
                    warn_cm, strict_warnings = None, False
                if sim_clock:
                    bump("H_clock_reads_by_cm_colors", seams.uninstall_sim_clock())
                    sim_clock = False
                if saved_locale is not None:
                    import locale as _locale

                    _locale.setlocale(_locale.LC_ALL, saved_locale)
                    saved_locale = None
                if op["what"] == "locale-c":
                    # the host switches the process locale (locale.setlocale(LC_ALL, "C")): whatever the library writes must
                    # not depend on it
                    import locale as _locale

                    saved_locale = _locale.setlocale(_locale.LC_ALL)
                    _locale.setlocale(_locale.LC_ALL, "C")
                    bump("H_host_locale_C_windows")
                if op["what"] in ("warnings-error", "warnings-always"):
                    warn_cm = warnings.catch_warnings()
                    warn_cm.__enter__()
                    warnings.simplefilter("error" if op["what"] == "warnings-error" else "always")
                    strict_warnings = op["what"] == "warnings-error"
                    bump("H_host_warning_filter_windows")
                elif op["what"] == "clock-jumps":
                    # fault: every clock cm_colors reads jumps forward between reads (suspend/resume, NTP step, a loaded machine)
                    seams.install_sim_clock(op.get("seed", 0))
                    sim_clock = True
                    bump("H_clock_jump_windows")
                events.append((i, op, None, None))
                continue
            r = _run_any(op, ctx, root)
            eq, orc = expect[i]
            bump("H_ops")
            if strict_warnings:
                bump("H_ops_under_warnings_as_errors")
                if "exc" in r and "Warning(" in str(r["exc"])[:60] and "exc" not in orc:
                    # the host asked for warnings to be raised and one was: that is the host's request, not a wrong result
                    bump("H_warning_raised_as_asked")
                    events.append((i, {k: v for k, v in op.items() if k != "tree"}, None, r.get("exc")))
                    continue
            if op["op"] == "cli":
                bump("H_cli_ops")
            if op["op"] == "bulk":
                bump("H_bulk_ops")
            if op.get("show") or op.get("save"):
                bump("H_show_save_ops")
            if op["op"] in ("make_on", "readable_on"):
                bump("H_slot_reuse")
            if op.get("again"):
                bump("H_repeat_same_op")
            if op.get("alias"):
                bump("H_alias_family_ops")
            if op.get("flood"):
                bump("H_flood_ops")
            if op.get("aborted") and "exc" in r:
                bump("H_aborted_bulk_ops")
            if op.get("heavy"):
                bump("H_heavy_distinct_fix_ops")
            if changed_seen:
                bump("H_probes_after_change")
                nontrivial = True
            events.append((i, {k: v for k, v in op.items() if k != "tree"}, r.get("ret"), r.get("exc")))
            got = {k: r.get(k) for k in ("ret", "exc") if k in r}
            want = {k: orc.get(k) for k in ("ret", "exc") if k in orc}
            if got != want:
                vio.append({"kind": "history-dependence", "detail": {"index": i, "op": _brief(op), "in_history": _brief_res(got), "pristine": _brief_res(want)},
                            "features": {"kind": "history-dependence", "op": op["op"]}})
            if r.get("mutated"):
                vio.append({"kind": "object-mutated", "detail": {"index": i, "op": _brief(op), "mutated": r["mutated"]},
                            "features": {"kind": "object-mutated", "op": op["op"]}})
            if r.get("cwd_moved"):
                # the call left the PROCESS in another working directory: every relative path a later call is given (and the
                # place a later report goes to) now means something else - history dependence through process-global state.
                # (the harness re-anchors the working directory before each operation, so it is reported here, at the source)
                vio.append({"kind": "history-dependence", "detail": {"index": i, "op": _brief(op), "note": "the call changed the process working directory",
                                                                     "cwd_before": r["cwd_moved"][0], "cwd_after": r["cwd_moved"][1]},
                            "features": {"kind": "history-dependence", "op": op["op"]}})
            # "at any position in a bulk list": element k of a bulk result must be what a one-entry bulk call
            # for that entry returns in a pristine process
            if op["op"] == "bulk" and "ret" in r and len(op["pairs"]) > 1 and not op.get("save") and not op.get("flood"):
                got_list = dec(r["ret"])
                for k, entry in enumerate(op["pairs"]):
                    one = apiops.oracle({"op": "bulk", "pairs": [entry], "mode": op.get("mode"), "vr": op.get("vr")}, cache_one)
                    bump("H_bulk_position_probes")
                    if "ret" in one and isinstance(got_list, list) and k < len(got_list):
                        alone = dec(one["ret"])
                        if isinstance(alone, list) and len(alone) == 1 and alone[0] != got_list[k]:
                            vio.append({"kind": "position-dependence", "detail": {"index": i, "entry_index": k, "entry": entry, "list": op["pairs"],
                                                                                   "in_list": repr(got_list[k]), "alone": repr(alone[0])},
                                        "features": {"kind": "position-dependence", "op": "bulk"}})
            if op["op"] == "cli" and "ret" in r and 2 <= len(op["tree"]) <= 4 and not op.get("prior_settings"):
                files_here = dict((k, v) for k, v in dec(r["ret"])[3])
                for name in sorted(op["tree"]):
                    if not (name.endswith(".css") and not name.endswith("_cm.css")):
                        continue
                    one = {"op": "cli", "tree": {name: op["tree"][name]}, "settings": op["settings"], "order_key": op.get("order_key")}
                    ref = cli_alone.get(base.canon(one))
                    if ref is None or "ret" not in ref:
                        continue
                    files_alone = dict((k, v) for k, v in dec(ref["ret"])[3])
                    key = "tree/" + name[:-4] + "_cm.css"
                    bump("H_cli_file_position_probes")
                    if files_here.get(key) != files_alone.get(key):
                        vio.append({"kind": "position-dependence", "detail": {"index": i, "file": name, "in_run_of": sorted(op["tree"]),
                                                                               "in_run": _brief_res(files_here.get(key)), "alone": _brief_res(files_alone.get(key))},
                                    "features": {"kind": "position-dependence", "op": "cli"}})
            if op["op"] == "cli" and "ret" in r and not op.get("prior_settings") and len(op["tree"]) <= 2:
                files_here = dict((k, v) for k, v in dec(r["ret"])[3])
                for name, sel, one in _literal_rule_probes(op):
                    want = rule_alone.get(base.canon([one, sel]))
                    if want is None or want[0] != "colour":
                        continue
                    got_c = _written_colour(files_here, name, sel)
                    bump("H_cli_rule_position_probes")
                    if got_c != want:
                        vio.append({"kind": "position-dependence", "detail": {"index": i, "file": name, "selector": sel, "stylesheet": op["tree"][name][:600],
                                                                               "in_stylesheet": list(got_c), "alone": list(want)},
                                    "features": {"kind": "position-dependence", "op": "cli-rule"}})
            if _colour_changed(op, r):
                changed_seen = True
    finally:
        if warn_cm is not None:
            warn_cm.__exit__(None, None, None)
        if sim_clock:
            bump("H_clock_reads_by_cm_colors", seams.uninstall_sim_clock())
        if saved_locale is not None:
            import locale as _locale

            _locale.setlocale(_locale.LC_ALL, saved_locale)
        base.rm_tree(root)
    return {"violations": vio, "digest": base.digest(events), "nontrivial": nontrivial, "stats": stats, "steps": stats.get("H_ops", 0),
            "measures": {"distinct_histories(op lists)": base.digest([{k: v for k, v in o.items() if k not in ("again", "alias", "flood", "heavy", "aborted", "t_from_op")} for o in trace["ops"]])}}


def _brief(op):
    o = {k: v for k, v in op.items() if k != "tree"}
    if "tree" in op:
        o["tree"] = {k: v[:200] for k, v in op["tree"].items()}
    return o


def _brief_res(r):
    s = json.dumps(r, default=str)
    return s if len(s) < 1500 else s[:1500] + "..."


def _exec_T(trace):
    events, vio, stats = [], [], {}

    def bump(k, n=1):
        stats[k] = stats.get(k, 0) + n

    clients = trace["clients"]
    n = len(clients)
    cache = {}
    model = apiops.Ctx()
    if trace.get("shared"):
        model.slot_spec[0] = trace["shared"]
    expect = [[apiops.oracle(apiops.fresh_equivalent(op, model), cache) for op in cl] for cl in clients]
    # shared object is constructed before the threads start (construction itself is exercised by the other modes)
    ctx = apiops.Ctx()
    state0 = None
    if trace.get("shared"):
        if trace.get("shared_untouched"):
            # the shared object is only CONSTRUCTED here; its first query happens inside the threads
            from cm_colors import ColorPair

            ctx.slots[0] = ColorPair(dec(trace["shared"]["t"]), dec(trace["shared"]["b"]), trace["shared"].get("large", False))
            ctx.slot_spec[0] = trace["shared"]
            twin = ColorPair(dec(trace["shared"]["t"]), dec(trace["shared"]["b"]), trace["shared"].get("large", False))
            state0 = apiops._pair_state(twin)
            bump("T_shared_object_first_touch_in_threads")
        else:
            apiops.run_op(dict(op="newpair", slot=0, **trace["shared"]), ctx)
            state0 = apiops._pair_state(ctx.slots[0])
    results = [[None] * len(cl) for cl in clients]

    def mk(i):
        def fn():
            for j, op in enumerate(clients[i]):
                results[i][j] = apiops.run_op(op, ctx)
        return fn

    if trace.get("schedule") is not None:
        sc = sched.Scheduler(n, schedule=trace["schedule"], hot=None)
    else:
        import random

        sc = sched.Scheduler(n, rng=random.Random("%d|sched" % trace["sched_seed"]), mean_gap=trace["mean_gap"],
                             p_hot=trace["p_hot"], hot=sched.hot_lines() if trace["p_hot"] > 0 else None)
    if trace.get("sim_clock"):
        seams.install_sim_clock(trace["sched_seed"])
        bump("T_runs_under_jumping_clock")
    try:
        sc.run([mk(i) for i in range(n)])
    except sched.StepCap:
        raise base.HarnessError("step cap exceeded")
    finally:
        if trace.get("sim_clock"):
            stats["clock_reads_by_cm_colors"] = stats.get("clock_reads_by_cm_colors", 0) + seams.uninstall_sim_clock()
    if sc.errors:
        # an exception escaping run_op can only be the harness's own (run_op catches Exception)
        raise base.HarnessError("client thread error: %r" % (sc.errors,))
    bump("T_runs")
    bump("T_threads", n)
    bump("T_ops", sum(len(c) for c in clients))
    bump("T_steps", sc.steps)
    switches = [d for d in sc.decisions if d[3] not in ("start", "finish")]
    bump("T_switches", len(switches))
    bump("T_hot_line_hits", sc.hot_hits)
    bump("T_switch_in_optimisation", sc.switches_in.get("core/optimisation.py", 0))
    bump("T_mode_" + trace["sharing"].replace("-", "_"))
    if switches:
        bump("T_runs_with_switch_inside_call")
    events.append(("switches", [(d[1], d[2], d[3]) for d in sc.decisions]))
    for i in range(n):
        for j, op in enumerate(clients[i]):
            r = results[i][j] or {"exc": "operation did not run"}
            orc = expect[i][j]
            events.append((i, j, r.get("ret"), r.get("exc")))
            got = {k: r.get(k) for k in ("ret", "exc") if k in r}
            want = {k: orc.get(k) for k in ("ret", "exc") if k in orc}
            if got != want:
                kind = "raised-under-schedule" if ("exc" in got and "exc" not in want) else "schedule-dependence"
                vio.append({"kind": kind, "detail": {"client": i, "op_index": j, "op": op, "under_schedule": _brief_res(got), "pristine": _brief_res(want),
                                                      "switches": len(switches)}, "features": {"kind": kind, "sharing": trace["sharing"]}})
            if r.get("mutated"):
                vio.append({"kind": "object-mutated", "detail": {"client": i, "op_index": j, "op": op, "mutated": r["mutated"]},
                            "features": {"kind": "object-mutated", "sharing": trace["sharing"]}})
    if state0 is not None and apiops._pair_state(ctx.slots[0]) != state0:
        vio.append({"kind": "object-mutated", "detail": {"note": "shared ColorPair differs after the schedule", "before": state0,
                                                          "after": apiops._pair_state(ctx.slots[0])}, "features": {"kind": "object-mutated", "sharing": trace["sharing"]}})
    explicit = None
    if vio and trace.get("schedule") is None:
        explicit = dict(trace, schedule=sc.explicit_schedule())
    return {"violations": vio, "digest": base.digest(events), "nontrivial": bool(switches), "stats": stats, "steps": sc.steps, "explicit": explicit,
            "measures": {"distinct_interleavings(switch sequences from,to,file:line)": base.digest([(d[1], d[2], d[3]) for d in sc.decisions]),
                         "distinct_thread_workloads": base.digest(clients)}}


_P_CODE = ("import sys, json\nfrom verif_sim import apiops, base\nops = json.loads(sys.stdin.read())\n"
           "out = []\nfor op in ops:\n    out.append(apiops._oracle_run(op))\nprint(json.dumps(out))\nbase.rm_tree(base.sandbox_base())\n")


_P_CODE_SHARED = ("import sys, json\nfrom verif_sim import apiops, base\nd = json.loads(sys.stdin.read())\n"
                  "out = []\nwith apiops.Effects(d['root']):\n    for op in d['ops']:\n        r = apiops.run_op(op, apiops.Ctx())\n        r.pop('mutated', None)\n        out.append(r)\n"
                  "print(json.dumps(out))\nbase.rm_tree(base.sandbox_base())\n")


def _exec_P(trace):
    events, vio, stats = [], [], {}
    ops = trace["ops"]
    cache = {}
    here = [apiops.oracle(op, cache) for op in ops]
    stats["P_runs"] = 1
    stats["P_ops"] = len(ops)
    for hs in trace["hashseeds"]:
        env = dict(os.environ, PYTHONHASHSEED=str(hs))
        p = subprocess.run([sys.executable, "-c", _P_CODE], input=json.dumps(ops), env=env, capture_output=True, text=True, timeout=300,
                           cwd=base.VERIF_DIR)
        if p.returncode != 0:
            raise base.HarnessError("fresh interpreter failed: " + p.stderr[-800:])
        stats["P_interpreters"] = stats.get("P_interpreters", 0) + 1
        there = json.loads(p.stdout.strip().splitlines()[-1])
        for i, (a, b) in enumerate(zip(here, there)):
            a2 = {k: a.get(k) for k in ("ret", "exc") if k in a}
            b2 = {k: b.get(k) for k in ("ret", "exc") if k in b}
            if a2 != b2:
                vio.append({"kind": "process-dependence", "detail": {"op": ops[i], "hashseed": hs, "this_process": _brief_res(a2), "fresh_interpreter": _brief_res(b2)},
                            "features": {"kind": "process-dependence"}})
    if trace.get("shared_machine"):
        # one user's machine: two interpreters, one after the other, with the SAME home and temp directories; the second one
        # meets whatever the first one left on disk (and asks in the opposite order)
        mroot = base.new_sandbox("c15mach")
        try:
            for k, order in enumerate((list(range(len(ops))), list(reversed(range(len(ops)))))):
                env = dict(os.environ, PYTHONHASHSEED=str(trace["hashseeds"][0] + k))
                p = subprocess.run([sys.executable, "-c", _P_CODE_SHARED], input=json.dumps({"root": mroot, "ops": [ops[i] for i in order]}), env=env,
                                   capture_output=True, text=True, timeout=300, cwd=base.VERIF_DIR)
                if p.returncode != 0:
                    raise base.HarnessError("fresh interpreter (shared machine) failed: " + p.stderr[-800:])
                stats["P_interpreters_sharing_home_and_tmp"] = stats.get("P_interpreters_sharing_home_and_tmp", 0) + 1
                there = json.loads(p.stdout.strip().splitlines()[-1])
                for i, b in zip(order, there):
                    a2 = {kk: here[i].get(kk) for kk in ("ret", "exc") if kk in here[i]}
                    b2 = {kk: b.get(kk) for kk in ("ret", "exc") if kk in b}
                    if a2 != b2:
                        vio.append({"kind": "process-dependence", "detail": {"op": ops[i], "interpreter": k, "pristine": _brief_res(a2),
                                                                             "interpreter_on_a_used_machine": _brief_res(b2)},
                                    "features": {"kind": "process-dependence"}})
            left = sorted(kk for kk in seams.snapshot(mroot) if kk.split("/")[0] in ("home", "tmp") and kk not in ("home", "tmp"))
            events.append(("left-on-machine", left))
        finally:
            base.rm_tree(mroot)
    events.append([(o, h.get("ret"), h.get("exc")) for o, h in zip(ops, here)])
    nontrivial = any(_colour_changed(o, h) for o, h in zip(ops, here))
    return {"violations": vio, "digest": base.digest(events), "nontrivial": nontrivial, "stats": stats, "steps": len(ops)}


# ---------------------------------------------------------------------------


def shrink(trace):
    eng = trace["engine"]
    if eng == "H":
        ops = trace["ops"]
        used = {o["slot"] for o in ops if o["op"] in ("make_on", "readable_on")}
        # big cuts first: drop halves, then single ops
        n = len(ops)
        for a, b in ((0, n // 2), (n // 2, n)):
            t = copy.deepcopy(trace)
            keep = [o for k, o in enumerate(ops) if not (a <= k < b) or (o["op"] == "newpair" and o["slot"] in used)]
            if 0 < len(keep) < n:
                t["ops"] = copy.deepcopy(keep)
                yield t
        for i in range(n):
            if ops[i]["op"] == "newpair" and ops[i]["slot"] in used:
                continue
            t = copy.deepcopy(trace)
            del t["ops"][i]
            if t["ops"]:
                yield t
        for i, o in enumerate(ops):
            for k in ("show", "save"):
                if o.get(k):
                    t = copy.deepcopy(trace)
                    del t["ops"][i][k]
                    yield t
            if o["op"] == "bulk" and len(o["pairs"]) > 1:
                for j in range(len(o["pairs"])):
                    t = copy.deepcopy(trace)
                    del t["ops"][i]["pairs"][j]
                    yield t
            if o["op"] == "cli" and len(o["tree"]) > 1:
                for name in o["tree"]:
                    t = copy.deepcopy(trace)
                    del t["ops"][i]["tree"][name]
                    yield t
    elif eng == "T":
        cl = trace["clients"]
        if len(cl) > 2:
            for i in range(len(cl)):
                t = copy.deepcopy(trace)
                del t["clients"][i]
                if t.get("schedule") is not None:
                    t["schedule"] = [[s, (to if to < i else to - 1), k] for (s, to, k) in t["schedule"] if to != i]
                yield t
        for i in range(len(cl)):
            if len(cl[i]) > 1:
                for j in range(len(cl[i])):
                    t = copy.deepcopy(trace)
                    del t["clients"][i][j]
                    yield t
        if trace.get("schedule"):
            sc = trace["schedule"]
            idx = [k for k, e in enumerate(sc) if e[2] == "s"]
            # ddmin-style: drop halves of the switch list, then single switches
            for a, b in ((0, len(idx) // 2), (len(idx) // 2, len(idx))):
                drop = set(idx[a:b])
                if drop:
                    t = copy.deepcopy(trace)
                    t["schedule"] = [e for k, e in enumerate(sc) if k not in drop]
                    yield t
            if len(idx) <= 24:
                for k in idx:
                    t = copy.deepcopy(trace)
                    del t["schedule"][k]
                    yield t
    else:
        for i in range(len(trace["ops"])):
            t = copy.deepcopy(trace)
            del t["ops"][i]
            if t["ops"]:
                yield t
        if len(trace["hashseeds"]) > 1:
            for i in range(len(trace["hashseeds"])):
                t = copy.deepcopy(trace)
                del t["hashseeds"][i]
                yield t


def sample_view(trace, res):
    v = {"engine": trace["engine"], "digest": res["digest"], "stats": res["stats"]}
    if trace["engine"] == "H":
        v["ops"] = [_brief(o) for o in trace["ops"]][:12]
    elif trace["engine"] == "T":
        v.update(sharing=trace["sharing"], clients=trace["clients"], mean_gap=trace["mean_gap"], p_hot=trace["p_hot"])
    else:
        v["ops"] = trace["ops"][:4]
        v["hashseeds"] = trace["hashseeds"]
    return v
