"""The seams the simulator owns: file system, traversal order, streams, terminal, audit log.

No source change in /repo is needed: `cm_colors.cli.main.Path`, and the name `open` in
`cm_colors.cli.main`, `cm_colors.cli.html_report` and `cm_colors.core.visualiser` are
module globals looked up at call time; `sys.stdout`/`sys.stderr` are resolved at call
time by click, print, traceback and rich.
"""
import builtins
import errno
import io
import os
import pathlib
import sys

from .base import hkey as _hkey


def hkey(key, name):
    """Rank of `name` under an order key: an int/str (hashed) or an object with .rank(name)."""
    if hasattr(key, "rank"):
        return key.rank(name)
    return _hkey(key, name)

_real_open = builtins.open
_real_scandir = os.scandir
_real_listdir = os.listdir


class SimCrash(BaseException):
    """Simulated process death at an I/O step (passes through `except Exception`)."""


# ---------------------------------------------------------------------------
# tree <-> disk


def materialise(base, tree):
    """Write a tree spec {relpath: entry} under directory `base` (created if needed)."""
    os.makedirs(base, exist_ok=True)
    for rel in sorted(tree):
        put_entry(base, rel, tree[rel])


def put_entry(base, rel, e):
    p = os.path.join(base, rel)
    os.makedirs(os.path.dirname(p), exist_ok=True)
    k = e["k"]
    if k == "css" or k == "text":
        with _real_open(p, "wb") as f:
            f.write(e["text"].encode("utf-8"))
    elif k == "bytes":
        with _real_open(p, "wb") as f:
            f.write(bytes.fromhex(e["hex"]))
    elif k == "dir":
        os.makedirs(p, exist_ok=True)
    elif k == "link":
        os.symlink(e["to"], p)
    elif k == "hardlink":
        # a second NAME for the file e["to"] (relative to base); falls back to a copy if the source is not there yet
        src = os.path.join(base, e["to"])
        try:
            os.link(src, p)
        except OSError:
            with _real_open(p, "wb") as f:
                f.write(e.get("text", "").encode("utf-8"))
    else:
        raise ValueError(k)


def remove_entry(base, rel):
    p = os.path.join(base, rel)
    if os.path.islink(p) or os.path.isfile(p):
        os.unlink(p)
    elif os.path.isdir(p):
        import shutil

        shutil.rmtree(p)


def snapshot(base):
    """{relpath: ("f", bytes) | ("d",) | ("l", target)} for everything under base."""
    out = {}

    def walk(d, prefix):
        with _real_scandir(d) as it:
            ents = sorted(it, key=lambda x: x.name)
        for ent in ents:
            rel = prefix + ent.name
            if ent.is_symlink():
                out[rel] = ("l", os.readlink(ent.path))
            elif ent.is_dir(follow_symlinks=False):
                out[rel] = ("d",)
                walk(ent.path, rel + "/")
            else:
                with _real_open(ent.path, "rb") as f:
                    out[rel] = ("f", f.read())

    walk(base, "")
    return out


def snap_diff(before, after):
    """(created, removed, changed) relpath lists, sorted."""
    created = sorted(k for k in after if k not in before)
    removed = sorted(k for k in before if k not in after)
    changed = sorted(k for k in after if k in before and before[k] != after[k])
    return created, removed, changed


# ---------------------------------------------------------------------------
# audit hook (installed once per process, active only around code under test)

_AUDIT = {"on": False, "log": None, "installed": False, "root": None}
_WRITE_FLAGS = os.O_WRONLY | os.O_RDWR | os.O_CREAT | os.O_TRUNC | os.O_APPEND
_FS_EVENTS = {
    "os.mkdir",
    "os.rename",
    "os.remove",
    "os.rmdir",
    "os.symlink",
    "os.link",
    "os.truncate",
    "os.chmod",
    "os.chown",
    "os.utime",
    "os.mkfifo",
    "os.mknod",
    "shutil.copyfile",
    "shutil.copymode",
    "shutil.copystat",
    "shutil.copytree",
    "shutil.move",
    "shutil.rmtree",
    "shutil.make_archive",
    "shutil.unpack_archive",
    "shutil.chown",
    "tempfile.mkstemp",
    "tempfile.mkdtemp",
    "subprocess.Popen",
    "os.system",
    "os.exec",
    "os.posix_spawn",
    "os.fork",
    "socket.connect",
    "socket.bind",
}


def _norm_path(p):
    if isinstance(p, bytes):
        p = os.fsdecode(p)
    if isinstance(p, int):
        return f"<fd {p}>"
    if isinstance(p, os.PathLike):
        p = os.fspath(p)
    if not isinstance(p, str):
        return repr(p)
    ap = os.path.abspath(p)
    root = _AUDIT["root"]
    if root and (ap == root or ap.startswith(root + os.sep)):
        return "<SBX>" + ap[len(root):]
    return ap


def _audit_hook(event, args):
    if not _AUDIT["on"]:
        return
    log = _AUDIT["log"]
    if event == "open":
        path, mode, flags = args
        if isinstance(path, int):
            return
        sp = path if isinstance(path, str) else (os.fsdecode(path) if isinstance(path, bytes) else str(path))
        if "__pycache__" in sp or sp.endswith(".pyc"):
            return
        wr = bool(flags & _WRITE_FLAGS) if isinstance(flags, int) else False
        if isinstance(mode, str) and any(c in mode for c in "wax+"):
            wr = True
        _AUDIT["on"] = False
        try:
            log.append(("open", _norm_path(path), "w" if wr else "r"))
        finally:
            _AUDIT["on"] = True
    elif event in _FS_EVENTS:
        _AUDIT["on"] = False
        try:
            log.append((event, tuple(_norm_path(a) if isinstance(a, (str, bytes, os.PathLike)) else repr(a) for a in args[:2])))
        finally:
            _AUDIT["on"] = True


def audit_start(root):
    if not _AUDIT["installed"]:
        sys.addaudithook(_audit_hook)
        _AUDIT["installed"] = True
    _AUDIT["log"] = []
    _AUDIT["root"] = root
    _AUDIT["on"] = True
    return _AUDIT["log"]


def audit_stop():
    _AUDIT["on"] = False
    return _AUDIT["log"]


class audit_paused:
    """Harness I/O inside an audited section (e.g. the sim_open delegate) is not logged twice."""

    def __enter__(self):
        self.prev = _AUDIT["on"]
        _AUDIT["on"] = False

    def __exit__(self, *a):
        _AUDIT["on"] = self.prev


# ---------------------------------------------------------------------------
# streams / terminal

TERM_VARS = (
    "COLUMNS LINES TERM COLORTERM NO_COLOR FORCE_COLOR TTY_COMPATIBLE TTY_INTERACTIVE "
    "JUPYTER_COLUMNS JUPYTER_LINES CLICOLOR CLICOLOR_FORCE PY_COLORS PYTHON_COLORS"
).split()


class Rec(io.StringIO):
    """Recording text stream with a configurable isatty()."""

    def __init__(self, tty=False, name="<rec>"):
        super().__init__()
        self._tty = tty
        self.name = name

    def isatty(self):
        return self._tty

    @property
    def encoding(self):
        return "utf-8"

    def fileno(self):
        raise io.UnsupportedOperation("fileno")


class MinimalStream:
    """What GUI consoles, log tees and IDE shims install as sys.stdout: write() and flush(), nothing else
    (no isatty, no encoding, no fileno). Everything written is recorded."""

    def __init__(self):
        self._buf = []

    def write(self, s):
        self._buf.append(s)
        return len(s)

    def flush(self):
        pass

    def getvalue(self):
        return "".join(self._buf)


def set_terminal_env(root, no_color=False):
    for v in TERM_VARS:
        os.environ.pop(v, None)
    os.environ["COLUMNS"] = "80"
    os.environ["LINES"] = "24"
    os.environ["TERM"] = "xterm-256color"
    if no_color:
        os.environ["NO_COLOR"] = "1"
    os.environ["HOME"] = os.path.join(root, "home")
    os.environ["TMPDIR"] = os.path.join(root, "tmp")
    os.environ["LC_ALL"] = "C.UTF-8"
    os.environ["LANG"] = "C.UTF-8"
    import tempfile

    tempfile.tempdir = None


# ---------------------------------------------------------------------------
# sim_open


class _FaultyWriter:
    def __init__(self, f, sim, rel, what, k):
        self._f, self._sim, self._rel, self._what, self._k = f, sim, rel, what, k
        self._n = 0

    def write(self, s):
        left = self._k - self._n
        if len(s) > left:
            part = s[: max(left, 0)]
            if part:
                self._f.write(part)
            self._f.flush()
            self._n += len(part)
            self._sim.log.append(("write", self._rel, len(part), self._what))
            self._sim.fired.append(self._what)
            if self._what == "crash":
                raise SimCrash(f"crash while writing {self._rel} after {self._n} chars")
            raise OSError(errno.ENOSPC, "No space left on device (injected)", self._rel)
        self._n += len(s)
        self._sim.log.append(("write", self._rel, len(s), "ok"))
        return self._f.write(s)

    def __enter__(self):
        return self

    def close(self):
        self._f.close()
        if self._what == "eio-close" and not getattr(self, "_closed_once", False):
            self._closed_once = True
            self._sim.log.append(("close", self._rel, 0, "eio-close"))
            self._sim.fired.append("eio-close")
            raise OSError(errno.EIO, "Input/output error at close (injected)", self._rel)

    def __exit__(self, *a):
        self.close()
        return False

    def __getattr__(self, name):
        return getattr(self._f, name)


class _LoggingFile:
    def __init__(self, f, sim, rel, read_fault=None):
        self._f, self._sim, self._rel, self._rf = f, sim, rel, read_fault

    def read(self, *a):
        if self._rf == "eio":
            self._sim.log.append(("read", self._rel, 0, "eio"))
            self._sim.fired.append("eio")
            raise OSError(errno.EIO, "Input/output error (injected)", self._rel)
        data = self._f.read(*a)
        self._sim.log.append(("read", self._rel, len(data), "ok"))
        return data

    def write(self, s):
        self._sim.log.append(("write", self._rel, len(s), "ok"))
        return self._f.write(s)

    def __enter__(self):
        return self

    def __exit__(self, *a):
        self._f.close()
        return False

    def __iter__(self):
        return iter(self._f)

    def __getattr__(self, name):
        return getattr(self._f, name)


class SimIOPlan:
    """Fault plan + log for the interposed open().

    faults: list of {"path": rel, "mode": "r"|"w", "n": occurrence (1-based), "what": str}
      what in: eacces | eio | enospc@K | crash | crash@K       (crash = before the open happens)
    crash_io: optional global I/O call number (1-based count of open() calls) before which the
      process "dies" (SimCrash), or ("after", n) to die right after the n-th open's file is closed.
    """

    def __init__(self, root, faults=(), crash_io=None):
        self.root = root
        self.faults = {(f["path"], f["mode"], f.get("n", 1)): f["what"] for f in faults}
        self.crash_io = crash_io
        self.log = []
        self.fired = []
        self.count = {}
        self.n_open = 0

    def rel(self, path):
        ap = os.path.abspath(os.fspath(path))
        if ap == self.root or ap.startswith(self.root + os.sep):
            return ap[len(self.root) + 1:]
        return ap

    def open(self, path, mode="r", *a, **kw):
        if isinstance(path, int):
            return _real_open(path, mode, *a, **kw)
        rel = self.rel(path)
        m = "w" if any(c in mode for c in "wax+") else "r"
        self.n_open += 1
        occ = self.count[(rel, m)] = self.count.get((rel, m), 0) + 1
        if self.crash_io is not None and self.crash_io == self.n_open:
            self.log.append(("open", rel, mode, "crash"))
            self.fired.append("crash")
            raise SimCrash(f"crash before I/O call {self.n_open} ({rel})")
        what = self.faults.get((rel, m, occ))
        if what == "eacces":
            self.log.append(("open", rel, mode, "eacces"))
            self.fired.append("eacces")
            raise PermissionError(errno.EACCES, "Permission denied (injected)", os.fspath(path))
        if what == "crash":
            self.log.append(("open", rel, mode, "crash"))
            self.fired.append("crash")
            raise SimCrash(f"crash before open of {rel}")
        f = _real_open(path, mode, *a, **kw)
        self.log.append(("open", rel, mode, "ok"))
        if what is None:
            return _LoggingFile(f, self, rel)
        if what == "eio":
            return _LoggingFile(f, self, rel, read_fault="eio")
        if what.startswith("enospc@"):
            return _FaultyWriter(f, self, rel, "enospc", int(what.split("@")[1]))
        if what.startswith("crash@"):
            return _FaultyWriter(f, self, rel, "crash", int(what.split("@")[1]))
        if what == "eio-close":
            return _FaultyWriter(f, self, rel, "eio-close", 1 << 60)
        raise ValueError(what)


# ---------------------------------------------------------------------------
# traversal order

_Base = type(pathlib.Path())


def make_sim_path(order_key, log, root):
    """PosixPath subclass whose rglob/glob/iterdir results are permuted by `order_key`.

    order_key None -> sorted order (still deterministic, unlike the OS order).
    """

    def perm(paths):
        res = sorted(paths, key=lambda p: str(p))
        if order_key is not None:
            res.sort(key=lambda p: hkey(order_key, os.path.relpath(str(p), root)))
        return res

    class SimPath(_Base):
        def rglob(self, pattern, **kw):
            res = perm(super().rglob(pattern, **kw))
            log.append(("rglob", [os.path.relpath(str(p), root) for p in res]))
            return iter(res)

        def glob(self, pattern, **kw):
            res = perm(super().glob(pattern, **kw))
            log.append(("glob", [os.path.relpath(str(p), root) for p in res]))
            return iter(res)

        def iterdir(self):
            return iter(perm(super().iterdir()))

    return SimPath


class _ScandirPerm:
    def __init__(self, it, key):
        with it:
            ents = list(it)
        ents.sort(key=lambda e: e.name)
        if key is not None:
            ents.sort(key=lambda e: hkey(key, e.name))
        self._it = iter(ents)

    def __iter__(self):
        return self

    def __next__(self):
        return next(self._it)

    def __enter__(self):
        return self

    def __exit__(self, *a):
        return False

    def close(self):
        pass


def patch_dir_listing(order_key):
    """Backstop: any other traversal (os.walk, glob, listdir) also sees a seeded, not the OS, order."""

    def scandir(path="."):
        return _ScandirPerm(_real_scandir(path), order_key)

    def listdir(path="."):
        names = sorted(_real_listdir(path))
        if order_key is not None:
            names.sort(key=lambda n: hkey(order_key, n if isinstance(n, str) else os.fsdecode(n)))
        return names

    os.scandir = scandir
    os.listdir = listdir


def unpatch_dir_listing():
    os.scandir = _real_scandir
    os.listdir = _real_listdir


# ---------------------------------------------------------------------------
# simulated clock (fault: clock jumps).  cm_colors reads no clock on the pinned tree; a change that starts to
# (a time budget, a cache expiry, a timestamp in a key) makes results depend on something that is not an argument.

_CLOCK_FUNCS = ("time", "monotonic", "perf_counter", "process_time", "thread_time")
_clock_saved = {}
_clock_rebound = []
clock_reads = [0]


def install_sim_clock(seed):
    """While installed, every clock read made FROM A cm_colors FRAME returns the real value plus a simulated offset that
    jumps forward at each read (seeded: 0, a millisecond, seconds, an hour). Callers outside cm_colors see real time."""
    import random
    import time as _time

    if _clock_saved:
        return
    rng = random.Random("%s|clock" % seed)
    offset = [0.0]
    clock_reads[0] = 0

    def wrap(name, real, ns):
        def fn(*a):
            try:
                caller = sys._getframe(1).f_globals.get("__name__", "")
            except Exception:
                caller = ""
            if caller.startswith("cm_colors"):
                clock_reads[0] += 1
                offset[0] += rng.choice((0.0, 0.001, 0.5, 2.0, 30.0, 3600.0))
                return real(*a) + (int(offset[0] * 1e9) if ns else offset[0])
            return real(*a)

        fn.__name__ = name
        return fn

    for base_name in _CLOCK_FUNCS:
        for ns in (False, True):
            name = base_name + ("_ns" if ns else "")
            real = getattr(_time, name, None)
            if real is not None:
                _clock_saved[name] = real
                w = wrap(name, real, ns)
                setattr(_time, name, w)
                # names bound with `from time import ...` inside cm_colors modules
                for mname, mod in list(sys.modules.items()):
                    if mname.startswith("cm_colors") and mod is not None:
                        for attr, val in list(vars(mod).items()):
                            if val is real:
                                _clock_rebound.append((mod, attr, real))
                                setattr(mod, attr, w)


def uninstall_sim_clock():
    import time as _time

    for name, real in _clock_saved.items():
        setattr(_time, name, real)
    for mod, attr, real in _clock_rebound:
        setattr(mod, attr, real)
    del _clock_rebound[:]
    _clock_saved.clear()
    return clock_reads[0]
